import Anytree.Lemmas.ForestRun
import Anytree.Lemmas.SetChildren
import Anytree.Props.C01
/-!
# C02 — attach, move, detach and children assignment have exactly the specified effect

For every consistent forest, every argument and every flavour, the mirror of a structural call
that no hook vetoes equals the closed-form specification `Spec.*` (refusal class decided on the
pre-state, final links without loops).  The `*_effect` / `*_refused_iff` theorems then spell the
specification out in the words of the property.
-/
namespace Anytree.Props.C02
open Anytree Forest

/-! ## mirror = specification -/

theorem setParent_eq_spec (c : Cfg) (hφ : c.φ = noFaults) (fuel : Nat) (s : Forest) (n : Nat)
    (v : Option Arg) (h : Inv s) (hv : ArgOk s.n v) (hfuel : s.n < fuel) :
    let o := exec c fuel (.setParent n v) s
    let r := Spec.setParent c.fl s n v
    o.res = r.res ∧ o.f = r.f ∧ o.log = r.log := by
  simp only [exec, Op.run, setParent_nf hφ fuel n v ⟨s, [], 0⟩ h hv hfuel, World.adv]
  simp

theorem delChildren_eq_spec (c : Cfg) (hφ : c.φ = noFaults) (fuel : Nat) (s : Forest) (n : Nat)
    (h : Inv s) (hfuel : s.n < fuel) :
    let o := exec c fuel (.delChildren n) s
    let r := Spec.delChildren s n
    o.res = r.res ∧ o.f = r.f ∧ o.log = r.log := by
  simp only [exec, Op.run, delChildren_nf hφ fuel n ⟨s, [], 0⟩ h hfuel, World.adv]
  simp [Spec.delChildren]

/-! ## the specification in the words of the property: parent assignment -/

/-- refused with TreeError exactly when (NodeMixin flavour) the new parent is not a tree node -/
theorem setParent_treeError_iff (fl : Flavor) (s : Forest) (n : Nat) (v : Option Arg) :
    (Spec.setParent fl s n v).res = .error .treeError ↔ (fl = .nm ∧ v = some .nonNode) := by
  match v with
  | none => simp [Spec.setParent]
  | some .nonNode => cases fl <;> simp [Spec.setParent]
  | some (.node p) =>
    simp only [Spec.setParent]
    split
    · simp
    · split <;> simp

/-- … otherwise with LoopError exactly when the new parent is the node itself or one of its
descendants (the assignment would make the node its own ancestor), unless it is the parent the
node already has -/
theorem setParent_loopError_iff (fl : Flavor) (s : Forest) (h : Inv s) (n p : Nat) (hp : p < s.n) :
    (Spec.setParent fl s n (some (.node p))).res = .error .loopError ↔
      (s.parent n ≠ some p ∧ (p = n ∨ ∃ k, 0 < k ∧ s.up k p = some n)) := by
  simp only [Spec.setParent]
  by_cases hs : s.parent n = some p
  · simp [hs]
  · simp only [hs, if_false]
    rw [← h.isAnc_iff hp]
    cases hb : (p == n || Spec.isAnc s n p) with
    | true =>
      simp only [hb, if_true, true_iff]
      refine ⟨by simpa using hs, ?_⟩
      simpa using hb
    | false =>
      simp only [hb, Bool.false_eq_true, if_false]
      constructor
      · intro hh; cases hh
      · rintro ⟨_, hh⟩
        simp only [Bool.or_eq_false_iff, beq_eq_false_iff_ne] at hb
        cases hh with
        | inl e => exact absurd e hb.1
        | inr e => rw [hb.2] at e; cases e

/-- assigning the parent the node already has changes nothing — not even sibling order — and
fires no hook -/
theorem setParent_same (fl : Flavor) (s : Forest) (n p : Nat) (hs : s.parent n = some p) :
    Spec.setParent fl s n (some (.node p)) = ⟨.ok (), s, []⟩ := by
  simp [Spec.setParent, hs]

theorem setParent_none_root (fl : Flavor) (s : Forest) (n : Nat) (hs : s.parent n = none) :
    Spec.setParent fl s n none = ⟨.ok (), s, []⟩ := by
  simp [Spec.setParent, Spec.detached_root hs, Spec.detachLog_root hs]

/-- a successful move: `n` leaves its former parent's children (the others keep their order) and
becomes the last child of `p`; every other node keeps its parent and its children list -/
theorem setParent_effect (fl : Flavor) (s : Forest) (h : Inv s) (n p : Nat)
    (hok : (Spec.setParent fl s n (some (.node p))).res = .ok ()) (hne : s.parent n ≠ some p) :
    let s' := (Spec.setParent fl s n (some (.node p))).f
    s'.parent n = some p ∧
    s'.children p = (s.children p) ++ [n] ∧
    (∀ q, s.parent n = some q → s'.children q = (s.children q).filter (· != n)) ∧
    (∀ y, y ≠ n → s'.parent y = s.parent y) ∧
    (∀ x, x ≠ p → s.parent n ≠ some x → s'.children x = s.children x) := by
  simp only [Spec.setParent, hne, if_false] at hok ⊢
  split at hok
  · cases hok
  · rename_i hb
    have hb' : (decide (p = n) || Spec.isAnc s n p) = false := by simpa using hb
    simp only [hb', Bool.false_eq_true, if_false, Spec.attached_eq, attachRaw_parent,
      attachRaw_children, if_true]
    have hdc := fun x => Spec.detached_children h n x
    refine ⟨trivial, ?_, ?_, ?_, ?_⟩
    · rw [hdc p]
      congr 1
      apply List.filter_eq_self.mpr
      intro a ha
      simp only [bne_iff_ne, ne_eq]
      intro e; subst e; exact hne ((h.bidir a p).2 ha)
    · intro q hq
      have hqp : q ≠ p := by intro e; subst e; exact hne hq
      simp only [hqp, if_false]; exact hdc q
    · intro y hy
      simp only [hy, if_false]
      cases hp : s.parent n with
      | none => rw [Spec.detached_root hp]
      | some q => rw [Spec.detached_eq hp]; simp [hy]
    · intro x hx hnx
      simp only [hx, if_false]
      rw [hdc x]
      apply List.filter_eq_self.mpr
      intro a ha
      simp only [bne_iff_ne, ne_eq]
      intro e; subst e; exact hnx ((h.bidir a x).2 ha)

/-- `n.parent = None` makes `n` a root and takes it out of its former parent's children -/
theorem setParent_none_effect (fl : Flavor) (s : Forest) (h : Inv s) (n : Nat) :
    let r := Spec.setParent fl s n none
    r.res = .ok () ∧ r.f.parent n = none ∧
    (∀ q, r.f.children q = (s.children q).filter (· != n)) ∧
    (∀ y, y ≠ n → r.f.parent y = s.parent y) := by
  simp only [Spec.setParent]
  refine ⟨trivial, ?_, fun q => Spec.detached_children h n q, ?_⟩
  · cases hp : s.parent n with
    | none => rw [Spec.detached_root hp]; exact hp
    | some q => rw [Spec.detached_eq hp]; simp
  · intro y hy
    cases hp : s.parent n with
    | none => rw [Spec.detached_root hp]
    | some q => rw [Spec.detached_eq hp]; simp [hy]

/-! ## children deletion -/

/-- `del n.children` makes every child a root, empties `n.children`, and leaves every other
node's parent and children as they were -/
theorem delChildren_effect (s : Forest) (h : Inv s) (n : Nat) :
    let r := Spec.delChildren s n
    r.res = .ok () ∧ r.f.children n = [] ∧
    (∀ q, q ≠ n → r.f.children q = s.children q) ∧
    (∀ y, r.f.parent y = if s.parent y = some n then none else s.parent y) := by
  simp only [Spec.delChildren]
  refine ⟨trivial, ?_, ?_, ?_⟩
  · rw [Spec.detachAll_children h]
    apply List.filter_eq_nil_iff.mpr
    intro a ha; simp [ha]
  · intro q hq
    rw [Spec.detachAll_children h]
    apply List.filter_eq_self.mpr
    intro a ha
    simp only [Bool.not_eq_eq_eq_not, Bool.not_true, List.contains_eq_mem, decide_eq_false_iff_not]
    intro ha'
    have h1 := (h.bidir a q).2 ha
    have h2 := (h.bidir a n).2 ha'
    rw [h1] at h2; exact hq (Option.some.inj h2)
  · intro y
    -- parents: only members of the list are touched
    have key : ∀ (cs : List Nat) (s : Forest), Inv s →
        (Spec.detachAll s cs).1.parent y = if cs.contains y then none else s.parent y := by
      intro cs
      induction cs with
      | nil => intro s _; simp [Spec.detachAll]
      | cons c cs ih =>
        intro s hs
        simp only [Spec.detachAll]
        rw [ih _ (Spec.inv_detached hs c)]
        by_cases hyc : y = c
        · subst hyc
          have : (Spec.detached s y).parent y = none := by
            cases hp : s.parent y with
            | none => rw [Spec.detached_root hp]; exact hp
            | some q => rw [Spec.detached_eq hp]; simp
          simp [this]
        · have : (Spec.detached s c).parent y = s.parent y := by
            cases hp : s.parent c with
            | none => rw [Spec.detached_root hp]
            | some q => rw [Spec.detached_eq hp]; simp [hyc]
          simp [this, hyc]
    rw [key _ s h]
    by_cases hy : s.parent y = some n
    · simp [hy, (h.bidir y n).1 hy]
    · have : y ∉ s.children n := fun hm => hy ((h.bidir y n).2 hm)
      simp [hy, this]

/-! ## children assignment -/

/-- a successful `n.children = xs` (distinct existing nodes, none of them `n` or an ancestor of
`n`): mirror = closed-form specification — result, links and the complete hook log -/
theorem setChildren_eq_spec (c : Cfg) (hφ : c.φ = noFaults) (fuel : Nat) (s : Forest) (n : Nat)
    (xs : List Nat) (h : Inv s) (hfuel : s.n + 2 < fuel) (hn : n < s.n) (hnd : xs.Nodup)
    (hlt : ∀ x ∈ xs, x < s.n) (hok : ∀ x ∈ xs, x ≠ n ∧ Spec.isAnc s x n = false) :
    let o := exec c fuel (.setChildren n (some (xs.map Arg.node))) s
    let r := Spec.setChildren c.fl s n (some (xs.map Arg.node))
    o.res = r.res ∧ o.f = r.f ∧ o.log = r.log := by
  have hr := Spec.setChildren_ok c.fl s n xs hnd hok
  simp only [exec, Op.run, setChildren_nf hφ fuel n xs ⟨s, [], 0⟩ h hfuel hn hnd hlt hok, World.adv]
  simp [hr]

/-- … and in the words of the property: `n.children == tuple(xs)` in that order, former children of
`n` that are not in `xs` are roots, every `x` has left its former parent, every node not named by
the call keeps its parent and its children list (minus the moved nodes) -/
theorem setChildren_effect (fl : Flavor) (s : Forest) (h : Inv s) (n : Nat) (xs : List Nat)
    (hn : n < s.n) (hnd : xs.Nodup) (hlt : ∀ x ∈ xs, x < s.n)
    (hok : ∀ x ∈ xs, x ≠ n ∧ Spec.isAnc s x n = false) :
    let r := Spec.setChildren fl s n (some (xs.map Arg.node))
    r.res = .ok () ∧ r.f.children n = xs ∧
    (∀ y, r.f.parent y =
      if xs.contains y then some n else if s.parent y = some n then none else s.parent y) ∧
    (∀ q, q ≠ n → r.f.children q = (s.children q).filter (fun c => !xs.contains c)) :=
  Spec.setChildren_effect fl s h n xs hn hnd hlt hok

/-- refusal of a children assignment, decided on the pre-state: `TypeError` iff not iterable; else
`TreeError` iff a child is listed twice or (NodeMixin flavour) is not a tree node — whichever comes
first in the sequence; else `LoopError` iff some element is the node itself or one of its ancestors -/
theorem setChildren_refusal (fl : Flavor) (s : Forest) (n : Nat) (xs : Option (List Arg)) :
    (Spec.setChildren fl s n xs).res =
      match xs with
      | none => .error .typeError
      | some as =>
        match Spec.firstBad fl [] as with
        | some e => .error e
        | none =>
          if (argsToNodes as).any (fun x => x = n || Spec.isAnc s x n) then .error .loopError
          else .ok () := by
  cases xs with
  | none => rfl
  | some as =>
    simp only [Spec.setChildren]
    cases Spec.firstBad fl [] as with
    | some e => rfl
    | none =>
      simp only
      split <;> rfl

/-- the mirror's argument check is the specification's -/
theorem checkChildren_eq_firstBad (fl : Flavor) :
    ∀ (seen : List Nat) (as : List Arg),
      checkChildren fl seen as = (match Spec.firstBad fl seen as with
        | some e => .error e
        | none => .ok ()) := by
  intro seen as
  induction as generalizing seen with
  | nil => simp [checkChildren, Spec.firstBad]
  | cons a as ih =>
    cases a with
    | nonNode => cases fl <;> simp [checkChildren, Spec.firstBad]
    | node k =>
      simp only [checkChildren, Spec.firstBad]
      split
      · rfl
      · exact ih _

-- non-vacuity: the hypotheses of the effect theorems are met by a concrete move
example :
    (Spec.setParent .nm Anytree.Props.C01.s6 3 (some (.node 4))).res = .ok () ∧
    Anytree.Props.C01.s6.parent 3 ≠ some 4 ∧
    (Spec.setParent .nm Anytree.Props.C01.s6 3 (some (.node 4))).f.snap =
      [(none, [1, 2]), (some 0, []), (some 0, []), (some 4, []), (none, [5, 3]), (some 4, [])] :=
  ⟨by rfl, by decide, by decide⟩

end Anytree.Props.C02
