import Anytree.Props.C02
import Anytree.Props.C03
import Anytree.Lemmas.C02b
/-!
# C02, the remaining gaps

* `setChildren_res_eq_spec` — for **every** argument of a children assignment (non-iterable, non-node
  elements, duplicates, the node itself or an ancestor among the elements, or a legal tuple) the
  mirror's result class is the specification's.  The new case is the refused assignment
  (`LoopError`): the mirror notices the loop only after it has attached the elements before the
  offending one, restores through the recursive setter and re-raises; the restore terminates with
  `ok` when no hook raises.  (Where the processed elements came from other parents the *links* are
  damaged — finding K3 — which is why links and log are only claimed when the result is not
  `LoopError`.)
* `ctor_eq_spec` — the constructors' `parent=` / `children=` arguments behave like the corresponding
  assignments on the fresh node.
* `setChildren_*_iff` — "a call is refused if and only if it must be", in words.
-/
namespace Anytree.Props.C02
open Anytree Forest

/-! ## 1. children assignment: result class for every argument -/

/-- world level: from every consistent forest, for every argument naming existing nodes, the mirror's
result class is the specification's; unless that class is `LoopError`, so are the links and the log -/
theorem setChildren_world (c : Cfg) (hφ : c.φ = noFaults) (fuel n : Nat) (xs : Option (List Arg))
    (w : World) (h : Inv w.f) (hn : n < w.f.n) (hxs : C01.ArgsOk w.f.n xs)
    (hfuel : w.f.n + 3 < fuel) :
    (setChildren c fuel n xs w).1 = (Spec.setChildren c.fl w.f n xs).res ∧
    ((Spec.setChildren c.fl w.f n xs).res ≠ .error .loopError →
      (setChildren c fuel n xs w).2 =
        w.adv (Spec.setChildren c.fl w.f n xs).f (Spec.setChildren c.fl w.f n xs).log) := by
  cases xs with
  | none =>
    exact ⟨rfl, fun _ => by simp [setChildren, M.throw, Spec.setChildren, World.adv_nil]⟩
  | some as =>
    have hcf := checkChildren_eq_firstBad c.fl [] as
    cases hfb : Spec.firstBad c.fl [] as with
    | some e =>
      rw [hfb] at hcf
      simp only [setChildren, hcf, M.throw, Spec.setChildren, hfb, World.adv_nil]
      exact ⟨trivial, fun _ => trivial⟩
    | none =>
      rw [hfb] at hcf
      obtain ⟨hnd, _, has⟩ := checkChildren_ok as [] hcf
      have hlt := C01.argsToNodes_lt as hxs
      generalize argsToNodes as = ys at hnd has hlt
      subst has
      by_cases hbad : ys.any (fun x => decide (x = n) || Spec.isAnc w.f x n) = true
      · obtain ⟨f', rfl⟩ : ∃ f', fuel = f' + 1 := ⟨fuel - 1, by omega⟩
        have hm := setChildrenNodes_loopError_nf hφ f' n ys w h (by omega) hn hnd hlt hbad
        have hs : (Spec.setChildren c.fl w.f n (some (ys.map Arg.node))).res = .error .loopError := by
          simp only [Spec.setChildren, hfb, argsToNodes_nodes, hbad, if_true]
        rw [hs]
        refine ⟨?_, fun hne => absurd rfl hne⟩
        simp only [setChildren, hcf, argsToNodes_nodes]
        exact hm
      · have hok : ∀ x ∈ ys, x ≠ n ∧ Spec.isAnc w.f x n = false := by
          have hf : ys.any (fun x => decide (x = n) || Spec.isAnc w.f x n) = false := by
            simpa using hbad
          intro x hx
          have := List.any_eq_false.mp hf x hx
          simpa using this
        rw [setChildren_nf hφ fuel n ys w h (by omega) hn hnd hlt hok,
          Spec.setChildren_ok c.fl w.f n ys hnd hok]
        exact ⟨rfl, fun _ => rfl⟩

/-- **refused children assignment, result class.**  No hook raises; the new children tuple is
duplicate-free and names existing nodes; some element is `n` itself or an ancestor of `n`.  The
mirror raises `LoopError` — after having attached the elements before the offending one and
restored through the recursive setter, whatever that did to the links (K3). -/
theorem setChildren_loopError (c : Cfg) (hφ : c.φ = noFaults) (fuel : Nat) (s : Forest) (n : Nat)
    (xs : List Nat) (h : Inv s) (hfuel : s.n + 3 < fuel) (hn : n < s.n) (hnd : xs.Nodup)
    (hlt : ∀ x ∈ xs, x < s.n)
    (hbad : xs.any (fun x => x = n || Spec.isAnc s x n) = true) :
    (exec c fuel (.setChildren n (some (xs.map Arg.node))) s).res = .error .loopError ∧
    (Spec.setChildren c.fl s n (some (xs.map Arg.node))).res = .error .loopError := by
  obtain ⟨f', rfl⟩ : ∃ f', fuel = f' + 1 := ⟨fuel - 1, by omega⟩
  constructor
  · simp only [exec, Op.run, setChildren,
      checkChildren_nodes c.fl xs [] hnd (fun _ _ hm => by simp at hm), argsToNodes_nodes]
    exact setChildrenNodes_loopError_nf hφ f' n xs ⟨s, [], 0⟩ h (by simp only; omega) hn hnd hlt hbad
  · simp only [Spec.setChildren, Spec.firstBad_nodes c.fl xs [] hnd (fun _ _ hm => by simp at hm),
      argsToNodes_nodes, hbad, if_true]

/-- … and the links the mirror leaves behind in that case: the closed-form assignment of the old
children from the state in which the elements `pre` before the first offending element `x` had been
attached (`Spec.restored`).  It is the pre-state when those elements were parentless or children of
`n` (`C03_attach_phase_loopError`), and differs from it otherwise (`K3_witness`). -/
theorem setChildren_loopError_state (c : Cfg) (hφ : c.φ = noFaults) (fuel : Nat) (s : Forest)
    (n : Nat) (pre : List Nat) (x : Nat) (post : List Nat) (h : Inv s) (hfuel : s.n + 3 < fuel)
    (hn : n < s.n) (hnd : (pre ++ x :: post).Nodup) (hlt : ∀ y ∈ pre, y < s.n)
    (hatt : ∀ y ∈ pre, y ≠ n ∧ Spec.isAnc s y n = false)
    (hbad : x = n ∨ Spec.isAnc s x n = true) :
    (exec c fuel (.setChildren n (some ((pre ++ x :: post).map Arg.node))) s).f =
      Spec.restored c.fl s n pre := by
  obtain ⟨f', rfl⟩ : ∃ f', fuel = f' + 1 := ⟨fuel - 1, by omega⟩
  have hndp : pre.Nodup := (List.nodup_append.mp hnd).1
  simp only [exec, Op.run, setChildren,
    checkChildren_nodes c.fl _ [] hnd (fun _ _ hm => by simp at hm), argsToNodes_nodes]
  exact (setChildrenNodes_loopError_res f' n pre x post ⟨s, [], 0⟩ h (by simp only; omega) hn hndp
    hlt hatt hbad (fun i k m _ => by rw [hφ]; rfl)).2

/-- **the children assignment, every argument**: result class of the mirror = result class of the
specification; unless that class is `LoopError` (K3), also the links and the complete hook log -/
theorem setChildren_eq_spec_gen (c : Cfg) (hφ : c.φ = noFaults) (fuel : Nat) (s : Forest) (n : Nat)
    (xs : Option (List Arg)) (h : Inv s) (hwf : C01.WellFormed s (.setChildren n xs))
    (hfuel : s.n + 3 < fuel) :
    let o := exec c fuel (.setChildren n xs) s
    let r := Spec.setChildren c.fl s n xs
    o.res = r.res ∧ (r.res ≠ .error .loopError → o.f = r.f ∧ o.log = r.log) := by
  obtain ⟨h1, h2⟩ := setChildren_world c hφ fuel n xs ⟨s, [], 0⟩ h hwf.1 hwf.2 hfuel
  refine ⟨h1, fun hne => ?_⟩
  have := h2 hne
  simp only [exec, Op.run, this, World.adv]
  simp

/-- **C02, refusal class of a children assignment**: for every argument — a non-iterable, a list
with non-node elements or duplicates, a list containing the node or one of its ancestors, or a legal
list — the mirror refuses (and with which exception) exactly as the specification says. -/
theorem setChildren_res_eq_spec (c : Cfg) (hφ : c.φ = noFaults) (fuel : Nat) (s : Forest) (n : Nat)
    (xs : Option (List Arg)) (h : Inv s) (hwf : C01.WellFormed s (.setChildren n xs))
    (hfuel : s.n + 3 < fuel) :
    (exec c fuel (.setChildren n xs) s).res = (Spec.setChildren c.fl s n xs).res :=
  (setChildren_eq_spec_gen c hφ fuel s n xs h hwf hfuel).1

-- non-vacuity: the hypotheses are met by the K3 call `1.children = [2, 0]` on `0 → [1]`, `3 → [2]`,
-- where the element processed before the offending one is taken from *another* parent; the theorem
-- gives the result class, and (kernel-checked, `C03.K3_witness`) the links do differ from the pre-state
example :
    (exec C03.cK3 64 (.setChildren 1 (some ([2, 0].map Arg.node))) C03.sK3).res = .error .loopError :=
  (setChildren_loopError C03.cK3 rfl 64 C03.sK3 1 [2, 0] (C03.wf_mk _ (by decide)) (by decide)
    (by decide) (by decide) (by decide) (by decide)).1

/-! ## 2. constructors -/

/-- the `self.parent = parent` statement of a constructor, on the fresh node `s.n` -/
theorem ctor_parent_phase (c : Cfg) (hφ : c.φ = noFaults) (fuel : Nat) (s : Forest) (p : Option Arg)
    (h : Inv s) (hp : ArgOk s.n p) (hfuel : s.n + 1 < fuel) :
    Inv (Spec.setParent c.fl s.newNode s.n p).f ∧
    (Spec.setParent c.fl s.newNode s.n p).f.n = s.n + 1 ∧
    setParent c fuel s.n p ⟨s.newNode, [], 0⟩ =
      ((Spec.setParent c.fl s.newNode s.n p).res,
        (⟨s.newNode, [], 0⟩ : World).adv (Spec.setParent c.fl s.newNode s.n p).f
          (Spec.setParent c.fl s.newNode s.n p).log) := by
  have h0 : Inv s.newNode := C01.inv_newNode h
  have hp' : ArgOk (s.n + 1) p := C01.argOk_mono hp
  have e1 := setParent_nf hφ fuel s.n p ⟨s.newNode, [], 0⟩ h0 hp' hfuel
  have ht := (C01.setParent_triple (s.n + 1) c fuel s.n p (by omega) hp').run
    (w := ⟨s.newNode, [], 0⟩) ⟨h0, rfl⟩
  rw [e1] at ht
  have hG : C01.Gd (s.n + 1) (Spec.setParent c.fl s.newNode s.n p).f := by
    cases hres : (Spec.setParent c.fl s.newNode s.n p).res with
    | ok u => cases u; rw [hres] at ht; exact ht
    | error e => rw [hres] at ht; exact ht
  exact ⟨hG.1, hG.2, e1⟩

/-- **constructors**: `Node(parent=p, children=cs)` is a fresh object followed by `self.parent = p`
and — for a truthy `cs` — `self.children = cs`.  Result class of the mirror = result class of the
specification; unless that class is `LoopError`, also the links and the complete hook log. -/
theorem ctor_eq_spec_gen (c : Cfg) (hφ : c.φ = noFaults) (fuel : Nat) (s : Forest) (p : Option Arg)
    (cs : CtorKids) (h : Inv s) (hwf : C01.WellFormed s (.ctor p cs)) (hfuel : s.n + 4 < fuel) :
    let o := exec c fuel (.ctor p cs) s
    let r := Spec.ctor c.fl s p cs
    o.res = r.res ∧ (r.res ≠ .error .loopError → o.f = r.f ∧ o.log = r.log) := by
  obtain ⟨hp, hcs⟩ := hwf
  obtain ⟨hi1, hn1, e1⟩ := ctor_parent_phase c hφ fuel s p h hp (by omega)
  have a0 : (M.modify Forest.newNode ⨾ setParent c fuel s.n p) ⟨s, [], 0⟩ =
      ((Spec.setParent c.fl s.newNode s.n p).res,
        (⟨s.newNode, [], 0⟩ : World).adv (Spec.setParent c.fl s.newNode s.n p).f
          (Spec.setParent c.fl s.newNode s.n p).log) :=
    (M.seq_ok (rfl : M.modify Forest.newNode ⟨s, [], 0⟩ = (.ok (), ⟨s.newNode, [], 0⟩))).trans e1
  cases hres : (Spec.setParent c.fl s.newNode s.n p).res with
  | error e =>
    rw [hres] at a0
    have hm : ctor c fuel p cs ⟨s, [], 0⟩ = (.error e, _) := M.seq_err a0
    have hspec : Spec.ctor c.fl s p cs = Spec.setParent c.fl s.newNode s.n p := by
      simp only [Spec.ctor, hres]
    simp only [exec, Op.run, hm, hspec, hres, World.adv]
    simp
  | ok u =>
    cases u
    rw [hres] at a0
    cases cs with
    | none =>
      have hm : ctor c fuel p .none ⟨s, [], 0⟩ = (.ok (), _) := M.seq_ok a0
      have hspec : Spec.ctor c.fl s p .none = Spec.setParent c.fl s.newNode s.n p := by
        simp only [Spec.ctor, hres]
      simp only [exec, Op.run, hm, hspec, hres, World.adv]
      simp
    | nonIterable =>
      have hm : ctor c fuel p .nonIterable ⟨s, [], 0⟩ = (.error .typeError, _) := M.seq_ok a0
      have hspec : Spec.ctor c.fl s p .nonIterable =
          ⟨.error .typeError, (Spec.setParent c.fl s.newNode s.n p).f,
            (Spec.setParent c.fl s.newNode s.n p).log⟩ := by
        simp only [Spec.ctor, hres]
      simp only [exec, Op.run, hm, hspec, World.adv]
      simp
    | list xs =>
      cases xs with
      | nil =>
        have hm : ctor c fuel p (.list []) ⟨s, [], 0⟩ = (.ok (), _) := M.seq_ok a0
        have hspec : Spec.ctor c.fl s p (.list []) = Spec.setParent c.fl s.newNode s.n p := by
          simp only [Spec.ctor, hres]
        simp only [exec, Op.run, hm, hspec, hres, World.adv]
        simp
      | cons x xs =>
        have hm : ctor c fuel p (.list (x :: xs)) ⟨s, [], 0⟩ =
            setChildren c fuel s.n (some (x :: xs)) _ := M.seq_ok a0
        have hspec : Spec.ctor c.fl s p (.list (x :: xs)) =
            ⟨(Spec.setChildren c.fl (Spec.setParent c.fl s.newNode s.n p).f s.n (some (x :: xs))).res,
             (Spec.setChildren c.fl (Spec.setParent c.fl s.newNode s.n p).f s.n (some (x :: xs))).f,
             (Spec.setParent c.fl s.newNode s.n p).log ++
             (Spec.setChildren c.fl (Spec.setParent c.fl s.newNode s.n p).f s.n (some (x :: xs))).log⟩ := by
          simp only [Spec.ctor, hres]
        obtain ⟨k1, k2⟩ := setChildren_world c hφ fuel s.n (some (x :: xs))
          ((⟨s.newNode, [], 0⟩ : World).adv (Spec.setParent c.fl s.newNode s.n p).f
            (Spec.setParent c.fl s.newNode s.n p).log)
          (by simpa using hi1) (by simp only [World.adv_f, hn1]; omega)
          (by
            simp only [World.adv_f, hn1]
            exact fun y hy => C01.argOk_mono (hcs y hy))
          (by simp only [World.adv_f, hn1]; omega)
        simp only [World.adv_f] at k1 k2
        refine ⟨?_, fun hne => ?_⟩
        · simp only [exec, Op.run, hm, hspec]
          exact k1
        · simp only [hspec] at hne
          have := k2 hne
          simp only [exec, Op.run, hm, hspec, this]
          simp [World.adv]

/-- **C02, constructors**: the result class always agrees; when the construction succeeds, so do the
links and the complete hook log -/
theorem ctor_eq_spec (c : Cfg) (hφ : c.φ = noFaults) (fuel : Nat) (s : Forest) (p : Option Arg)
    (cs : CtorKids) (h : Inv s) (hwf : C01.WellFormed s (.ctor p cs)) (hfuel : s.n + 4 < fuel) :
    (exec c fuel (.ctor p cs) s).res = (Spec.ctor c.fl s p cs).res ∧
    ((Spec.ctor c.fl s p cs).res = .ok () →
      (exec c fuel (.ctor p cs) s).f = (Spec.ctor c.fl s p cs).f ∧
      (exec c fuel (.ctor p cs) s).log = (Spec.ctor c.fl s p cs).log) := by
  obtain ⟨h1, h2⟩ := ctor_eq_spec_gen c hφ fuel s p cs h hwf hfuel
  exact ⟨h1, fun hok => h2 (by rw [hok]; intro e; cases e)⟩

/-- every structural call: the mirror's result class is the specification's -/
theorem exec_res_eq_spec (c : Cfg) (hφ : c.φ = noFaults) (fuel : Nat) (op : Op) (s : Forest)
    (h : Inv s) (hwf : C01.WellFormed s op) (hfuel : s.n + 4 < fuel) :
    (exec c fuel op s).res = (Spec.run c.fl s op).res := by
  cases op with
  | setParent n v => exact (setParent_eq_spec c hφ fuel s n v h hwf.2 (by omega)).1
  | setChildren n xs => exact setChildren_res_eq_spec c hφ fuel s n xs h hwf (by omega)
  | delChildren n => exact (delChildren_eq_spec c hφ fuel s n h (by omega)).1
  | ctor p cs => exact (ctor_eq_spec c hφ fuel s p cs h hwf hfuel).1

/-! ## 3. "refused if and only if it must be", in words -/

/-- the argument check only ever answers `TreeError` (or, for the light flavour, `unmodelled`) -/
theorem firstBad_range (fl : Flavor) : ∀ (as : List Arg) (seen : List Nat) (e : Err),
    Spec.firstBad fl seen as = some e → e = .treeError ∨ (fl = .light ∧ e = .unmodelled) := by
  intro as
  induction as with
  | nil => intro seen e he; simp [Spec.firstBad] at he
  | cons a as ih =>
    intro seen e he
    cases a with
    | nonNode =>
      cases fl
      · simp only [Spec.firstBad, Option.some.injEq] at he; exact Or.inl he.symm
      · simp only [Spec.firstBad, Option.some.injEq] at he; exact Or.inr ⟨rfl, he.symm⟩
    | node k =>
      simp only [Spec.firstBad] at he
      by_cases hk : seen.contains k = true
      · simp only [hk, if_true, Option.some.injEq] at he; exact Or.inl he.symm
      · simp only [hk, Bool.false_eq_true, if_false] at he; exact ih _ e he

/-- the argument check passes exactly the duplicate-free lists of tree nodes -/
theorem firstBad_none_iff (fl : Flavor) : ∀ (as : List Arg) (seen : List Nat),
    Spec.firstBad fl seen as = none ↔
      (∀ a ∈ as, a ≠ .nonNode) ∧ (argsToNodes as).Nodup ∧ ∀ x ∈ argsToNodes as, x ∉ seen := by
  intro as
  induction as with
  | nil => intro seen; simp [Spec.firstBad, argsToNodes]
  | cons a as ih =>
    intro seen
    cases a with
    | nonNode =>
      constructor
      · intro he; cases fl <;> simp [Spec.firstBad] at he
      · rintro ⟨h1, _, _⟩; exact absurd rfl (h1 .nonNode (by simp))
    | node k =>
      simp only [Spec.firstBad, argsToNodes]
      by_cases hk : seen.contains k = true
      · simp only [hk, if_true]
        constructor
        · intro he; cases he
        · rintro ⟨_, _, h3⟩
          exact absurd (by simpa using hk) (h3 k (by simp))
      · simp only [hk, Bool.false_eq_true, if_false]
        rw [ih (k :: seen)]
        have hk' : k ∉ seen := by simpa using hk
        constructor
        · rintro ⟨h1, h2, h3⟩
          refine ⟨?_, ?_, ?_⟩
          · intro a ha
            rcases List.mem_cons.mp ha with e | ha
            · rw [e]; intro e'; cases e'
            · exact h1 a ha
          · rw [List.nodup_cons]
            exact ⟨fun hm => h3 k hm (by simp), h2⟩
          · intro x hx
            rcases List.mem_cons.mp hx with e | hx
            · rw [e]; exact hk'
            · exact fun hm => h3 x hx (by simp [hm])
        · rintro ⟨h1, h2, h3⟩
          rw [List.nodup_cons] at h2
          refine ⟨fun a ha => h1 a (by simp [ha]), h2.2, ?_⟩
          intro x hx hm
          rcases List.mem_cons.mp hm with e | hm
          · rw [e] at hx; exact h2.1 hx
          · exact h3 x (by simp [hx]) hm

/-- the argument check answers `e` exactly when the list has a first offending element `a` — the
elements `pre` before it pass — and `a` is a non-node (`TreeError` for `NodeMixin`, `unmodelled` for
the light flavour) or a node seen before (`TreeError`) -/
theorem firstBad_some_iff (fl : Flavor) : ∀ (as : List Arg) (seen : List Nat) (e : Err),
    Spec.firstBad fl seen as = some e ↔
      ∃ pre a post, as = pre ++ a :: post ∧ Spec.firstBad fl seen pre = none ∧
        ((a = .nonNode ∧ e = (match fl with | .nm => .treeError | .light => .unmodelled)) ∨
         (∃ k, a = .node k ∧ (k ∈ seen ∨ k ∈ argsToNodes pre) ∧ e = .treeError)) := by
  intro as
  induction as with
  | nil =>
    intro seen e
    constructor
    · intro he; simp [Spec.firstBad] at he
    · rintro ⟨pre, a, post, hsplit, _⟩
      cases pre <;> simp at hsplit
  | cons b as ih =>
    intro seen e
    cases b with
    | nonNode =>
      constructor
      · intro he
        refine ⟨[], .nonNode, as, rfl, rfl, Or.inl ⟨rfl, ?_⟩⟩
        simp only [Spec.firstBad, Option.some.injEq] at he
        exact he.symm
      · rintro ⟨pre, a, post, hsplit, hpre, hwhy⟩
        cases pre with
        | nil =>
          simp only [List.nil_append, List.cons.injEq] at hsplit
          rcases hwhy with ⟨_, he⟩ | ⟨k, hk, _⟩
          · rw [he]; cases fl <;> rfl
          · rw [← hsplit.1] at hk; cases hk
        | cons b' pre' =>
          simp only [List.cons_append, List.cons.injEq] at hsplit
          rw [← hsplit.1] at hpre
          cases fl <;> simp [Spec.firstBad] at hpre
    | node k =>
      by_cases hk : seen.contains k = true
      · constructor
        · intro he
          refine ⟨[], .node k, as, rfl, rfl, Or.inr ⟨k, rfl, Or.inl (by simpa using hk), ?_⟩⟩
          simp only [Spec.firstBad, hk, if_true, Option.some.injEq] at he
          exact he.symm
        · rintro ⟨pre, a, post, hsplit, hpre, hwhy⟩
          cases pre with
          | nil =>
            simp only [List.nil_append, List.cons.injEq] at hsplit
            rcases hwhy with ⟨ha, _⟩ | ⟨_, _, _, he⟩
            · rw [← hsplit.1] at ha; cases ha
            · simp only [Spec.firstBad, hk, if_true, he]
          | cons b' pre' =>
            simp only [List.cons_append, List.cons.injEq] at hsplit
            rw [← hsplit.1] at hpre
            have hk'' : k ∈ seen := by simpa using hk
            simp [Spec.firstBad, hk''] at hpre
      · have hk' : k ∉ seen := by simpa using hk
        have hstep : ∀ l, Spec.firstBad fl seen (.node k :: l) = Spec.firstBad fl (k :: seen) l := by
          intro l; simp only [Spec.firstBad, hk, Bool.false_eq_true, if_false]
        rw [hstep, ih (k :: seen) e]
        constructor
        · rintro ⟨pre, a, post, hsplit, hpre, hwhy⟩
          refine ⟨.node k :: pre, a, post, by rw [hsplit]; rfl, by rw [hstep]; exact hpre, ?_⟩
          rcases hwhy with hw | ⟨k', ha, hmem, he⟩
          · exact Or.inl hw
          · refine Or.inr ⟨k', ha, ?_, he⟩
            simp only [argsToNodes, List.mem_cons] at hmem ⊢
            rcases hmem with (e | hm) | hm
            · exact Or.inr (Or.inl e)
            · exact Or.inl hm
            · exact Or.inr (Or.inr hm)
        · rintro ⟨pre, a, post, hsplit, hpre, hwhy⟩
          cases pre with
          | nil =>
            simp only [List.nil_append, List.cons.injEq] at hsplit
            rcases hwhy with ⟨ha, _⟩ | ⟨k', ha, hmem, _⟩
            · rw [← hsplit.1] at ha; cases ha
            · rw [← hsplit.1] at ha
              cases ha
              rcases hmem with hm | hm
              · exact absurd hm hk'
              · simp [argsToNodes] at hm
          | cons b' pre' =>
            simp only [List.cons_append, List.cons.injEq] at hsplit
            rw [← hsplit.1, hstep] at hpre
            refine ⟨pre', a, post, hsplit.2, hpre, ?_⟩
            rcases hwhy with hw | ⟨k', ha, hmem, he⟩
            · exact Or.inl hw
            · refine Or.inr ⟨k', ha, ?_, he⟩
              rw [← hsplit.1] at hmem
              simp only [argsToNodes, List.mem_cons] at hmem ⊢
              rcases hmem with hm | e | hm
              · exact Or.inl (Or.inr hm)
              · exact Or.inl (Or.inl e)
              · exact Or.inr hm

/-- `TypeError` exactly for a non-iterable argument -/
theorem setChildren_typeError_iff (fl : Flavor) (s : Forest) (n : Nat) (xs : Option (List Arg)) :
    (Spec.setChildren fl s n xs).res = .error .typeError ↔ xs = none := by
  rw [setChildren_refusal]
  cases xs with
  | none => simp
  | some as =>
    simp only [reduceCtorEq, iff_false]
    cases hfb : Spec.firstBad fl [] as with
    | some e =>
      simp only
      intro he
      rcases firstBad_range fl as [] e hfb with e1 | ⟨_, e1⟩
      · rw [e1] at he; cases he
      · rw [e1] at he; cases he
    | none =>
      simp only
      split <;> (intro he; cases he)

/-- `TreeError` exactly when the argument check finds a first offending element and calls it so -/
theorem setChildren_treeError_iff_firstBad (fl : Flavor) (s : Forest) (n : Nat) (as : List Arg) :
    (Spec.setChildren fl s n (some as)).res = .error .treeError ↔
      Spec.firstBad fl [] as = some .treeError := by
  rw [setChildren_refusal]
  simp only
  cases hfb : Spec.firstBad fl [] as with
  | some e =>
    simp only [Option.some.injEq]
    constructor
    · intro he; cases he; rfl
    · intro he; rw [he]
  | none =>
    simp only [reduceCtorEq, iff_false]
    split <;> (intro he; cases he)

/-- **`TreeError`, in words**: the list has a first offending element `a` — every element before it
is a tree node and they are pairwise distinct — and `a` is a non-node (`NodeMixin` flavour) or a
node listed before.  Whichever offence comes first in the sequence decides. -/
theorem setChildren_treeError_iff (fl : Flavor) (s : Forest) (n : Nat) (as : List Arg) :
    (Spec.setChildren fl s n (some as)).res = .error .treeError ↔
      ∃ pre a post, as = pre ++ a :: post ∧
        (∀ b ∈ pre, b ≠ .nonNode) ∧ (argsToNodes pre).Nodup ∧
        ((fl = .nm ∧ a = .nonNode) ∨ ∃ k, a = .node k ∧ k ∈ argsToNodes pre) := by
  rw [setChildren_treeError_iff_firstBad, firstBad_some_iff]
  constructor
  · rintro ⟨pre, a, post, hsplit, hpre, hwhy⟩
    obtain ⟨p1, p2, _⟩ := (firstBad_none_iff fl pre []).1 hpre
    refine ⟨pre, a, post, hsplit, p1, p2, ?_⟩
    rcases hwhy with ⟨ha, he⟩ | ⟨k, ha, hmem, _⟩
    · cases fl
      · exact Or.inl ⟨rfl, ha⟩
      · cases he
    · rcases hmem with hm | hm
      · simp at hm
      · exact Or.inr ⟨k, ha, hm⟩
  · rintro ⟨pre, a, post, hsplit, p1, p2, hwhy⟩
    refine ⟨pre, a, post, hsplit, (firstBad_none_iff fl pre []).2 ⟨p1, p2, fun _ _ hm => by simp at hm⟩,
      ?_⟩
    rcases hwhy with ⟨hfl, ha⟩ | ⟨k, ha, hm⟩
    · exact Or.inl ⟨ha, by rw [hfl]⟩
    · exact Or.inr ⟨k, ha, Or.inr hm, rfl⟩

/-- **`LoopError`, in words**: the argument passes the checks (a duplicate-free list of tree nodes)
and some element is the node itself or one of its ancestors -/
theorem setChildren_loopError_iff (fl : Flavor) (s : Forest) (h : Inv s) (n : Nat) (hn : n < s.n)
    (as : List Arg) :
    (Spec.setChildren fl s n (some as)).res = .error .loopError ↔
      Spec.firstBad fl [] as = none ∧
        ∃ x ∈ argsToNodes as, x = n ∨ ∃ k, 0 < k ∧ s.up k n = some x := by
  rw [setChildren_refusal]
  simp only
  cases hfb : Spec.firstBad fl [] as with
  | some e =>
    simp only [reduceCtorEq, false_and, iff_false]
    intro he
    rcases firstBad_range fl as [] e hfb with e1 | ⟨_, e1⟩
    · rw [e1] at he; cases he
    · rw [e1] at he; cases he
  | none =>
    simp only [true_and]
    by_cases hany : (argsToNodes as).any (fun x => decide (x = n) || Spec.isAnc s x n) = true
    · simp only [hany, if_true, true_iff]
      obtain ⟨x, hx, hb⟩ := List.any_eq_true.mp hany
      refine ⟨x, hx, ?_⟩
      simp only [Bool.or_eq_true, decide_eq_true_eq] at hb
      rcases hb with e | ha
      · exact Or.inl e
      · exact Or.inr ((h.isAnc_iff hn).1 ha)
    · simp only [hany, Bool.false_eq_true, if_false, reduceCtorEq, false_iff]
      rintro ⟨x, hx, hb⟩
      apply hany
      apply List.any_eq_true.mpr
      refine ⟨x, hx, ?_⟩
      simp only [Bool.or_eq_true, decide_eq_true_eq]
      rcases hb with e | ha
      · exact Or.inl e
      · exact Or.inr ((h.isAnc_iff hn).2 ha)

/-- … the same with the passing check spelled out -/
theorem setChildren_loopError_iff' (fl : Flavor) (s : Forest) (h : Inv s) (n : Nat) (hn : n < s.n)
    (as : List Arg) :
    (Spec.setChildren fl s n (some as)).res = .error .loopError ↔
      (∀ a ∈ as, a ≠ .nonNode) ∧ (argsToNodes as).Nodup ∧
        ∃ x ∈ argsToNodes as, x = n ∨ ∃ k, 0 < k ∧ s.up k n = some x := by
  rw [setChildren_loopError_iff fl s h n hn, firstBad_none_iff]
  constructor
  · rintro ⟨⟨h1, h2, _⟩, h3⟩; exact ⟨h1, h2, h3⟩
  · rintro ⟨h1, h2, h3⟩; exact ⟨⟨h1, h2, fun _ _ hm => by simp at hm⟩, h3⟩

/-- **accepted, in words**: an iterable of pairwise distinct tree nodes, none of them the node itself
or one of its ancestors — and *only* then -/
theorem setChildren_ok_iff (fl : Flavor) (s : Forest) (h : Inv s) (n : Nat) (hn : n < s.n)
    (xs : Option (List Arg)) :
    (Spec.setChildren fl s n xs).res = .ok () ↔
      ∃ as, xs = some as ∧ (∀ a ∈ as, a ≠ .nonNode) ∧ (argsToNodes as).Nodup ∧
        ∀ x ∈ argsToNodes as, x ≠ n ∧ ∀ k, 0 < k → s.up k n ≠ some x := by
  cases xs with
  | none =>
    simp only [Spec.setChildren, reduceCtorEq, false_and, exists_false]
  | some as =>
    have hl := setChildren_loopError_iff fl s h n hn as
    rw [setChildren_refusal] at hl ⊢
    simp only [Option.some.injEq, exists_eq_left'] at hl ⊢
    cases hfb : Spec.firstBad fl [] as with
    | some e =>
      rw [hfb] at hl
      simp only [reduceCtorEq, false_iff]
      rintro ⟨h1, h2, _⟩
      have := (firstBad_none_iff fl as []).2 ⟨h1, h2, fun _ _ hm => by simp at hm⟩
      rw [hfb] at this; cases this
    | none =>
      rw [hfb] at hl
      obtain ⟨h1, h2, _⟩ := (firstBad_none_iff fl as []).1 hfb
      simp only [true_and] at hl
      by_cases hany : (argsToNodes as).any (fun x => decide (x = n) || Spec.isAnc s x n) = true
      · simp only [hany, if_true, true_iff] at hl
        simp only [hany, if_true, reduceCtorEq, false_iff]
        rintro ⟨_, _, h3⟩
        obtain ⟨x, hx, hb⟩ := hl
        rcases hb with e | ⟨k, hk0, hk⟩
        · exact (h3 x hx).1 e
        · exact (h3 x hx).2 k hk0 hk
      · simp only [hany, Bool.false_eq_true, if_false, reduceCtorEq, false_iff] at hl
        simp only [hany, Bool.false_eq_true, if_false, true_iff]
        refine ⟨h1, h2, ?_⟩
        intro x hx
        exact ⟨fun e => hl ⟨x, hx, Or.inl e⟩, fun k hk0 hk => hl ⟨x, hx, Or.inr ⟨k, hk0, hk⟩⟩⟩

end Anytree.Props.C02
