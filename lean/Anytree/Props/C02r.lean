import Anytree.Model.ForestR
import Anytree.Props.C02b
import Anytree.Lemmas.Restore
import Anytree.Lemmas.Reentrant
/-!
# C01/C02/C16 — a parent assignment whose hook detaches ANOTHER node

`Model/ForestR.lean` mirrors `n.parent = p` with one re-entrant hook: at one of the four hook positions the hook executes
`y.parent = None` for a node `y ≠ n`.  Claim: the call ends exactly where the two calls made one after the other end —
first `y.parent = None`, then `n.parent = p` — whenever the hook in question actually fires (the assignment is not a
no-op, is not refused, and for positions 0/1 the node has a parent to be detached from).  Hence the forest is consistent
afterwards (`Inv`), and the effect is the specified one.  This is the model-level counterpart of the harness's `pre_ops`
oracle for re-entrant hooks.
-/
namespace Anytree.Props.C02r
open Anytree

/-- the hook at position `pos` fires during `n.parent = p` from state `s` -/
def Fires (s : Forest) (n p pos : Nat) : Prop :=
  s.parent n ≠ some p ∧ p ≠ n ∧ Spec.isAnc s n p = false ∧ pos < 4 ∧ (pos < 2 → s.parent n ≠ none)

/-- the re-entrant call returns, and its final forest is the specified one -/
theorem setParentR_run (c : Cfg) (hφ : c.φ = noFaults) (fuel n p pos y : Nat) (s : Forest)
    (h : Inv s) (hn : n < s.n) (hp : p < s.n) (hyn : y ≠ n) (hfuel : s.n < fuel)
    (hne : s.parent n ≠ some p) (hpn : p ≠ n) (hanc : Spec.isAnc s n p = false) (hpos : pos < 4)
    (hpar : pos < 2 → s.parent n ≠ none) :
    ∃ w', setParentR c fuel n p pos y ⟨s, [], 0⟩ = (.ok (), w') ∧
      w'.f = Spec.attached (Spec.detached (Spec.detached s y) n) n p := by
  obtain ⟨w', e, f⟩ :=
    steps_setParentR hφ fuel n p pos y h hn hp hyn hfuel hpn hanc hpos hpar ⟨s, [], 0⟩ rfl
  refine ⟨w', ?_, f⟩
  simp only [setParentR, hne, if_false]
  exact e

/-- **sequentialisation**: with observing-only hooks otherwise (no faults), a parent assignment during which the hook at
position `pos` detaches another node `y` ends in the same forest as `y.parent = None` followed by `n.parent = p`, and both succeed -/
theorem setParentR_eq_seq (c : Cfg) (hφ : c.φ = noFaults) (fuel n p pos y : Nat) (s : Forest)
    (h : Inv s) (hn : n < s.n) (hp : p < s.n) (hy : y < s.n) (hyn : y ≠ n) (hfuel : s.n < fuel)
    (hf : Fires s n p pos) :
    let r := setParentR c fuel n p pos y ⟨s, [], 0⟩
    let q := (setParent c fuel y none ⨾ setParent c fuel n (some (.node p))) ⟨s, [], 0⟩
    r.1 = .ok () ∧ q.1 = .ok () ∧ r.2.f = q.2.f := by
  obtain ⟨hne, hpn, hanc, hpos, hpar⟩ := hf
  obtain ⟨w1, e1, f1⟩ := setParentR_run c hφ fuel n p pos y s h hn hp hyn hfuel hne hpn hanc hpos hpar
  obtain ⟨w2, e2, f2⟩ := steps_seq hφ fuel n p y h hp hyn hfuel hne hpn hanc ⟨s, [], 0⟩ rfl
  simp only [e1, e2, f1, f2, and_self]

/-- the final forest, spelled with the specification's link updates -/
theorem setParentR_forest (c : Cfg) (hφ : c.φ = noFaults) (fuel n p pos y : Nat) (s : Forest)
    (h : Inv s) (hn : n < s.n) (hp : p < s.n) (hy : y < s.n) (hyn : y ≠ n) (hfuel : s.n < fuel)
    (hf : Fires s n p pos) :
    (setParentR c fuel n p pos y ⟨s, [], 0⟩).2.f =
      Spec.attached (Spec.detached (Spec.detached s y) n) n p := by
  obtain ⟨hne, hpn, hanc, hpos, hpar⟩ := hf
  obtain ⟨w1, e1, f1⟩ := setParentR_run c hφ fuel n p pos y s h hn hp hyn hfuel hne hpn hanc hpos hpar
  rw [e1]; exact f1

/-- **C01 with a re-entrant hook**: the forest is consistent after such a call -/
theorem inv_setParentR (c : Cfg) (hφ : c.φ = noFaults) (fuel n p pos y : Nat) (s : Forest)
    (h : Inv s) (hn : n < s.n) (hp : p < s.n) (hy : y < s.n) (hyn : y ≠ n) (hfuel : s.n < fuel)
    (hf : Fires s n p pos) :
    Inv (setParentR c fuel n p pos y ⟨s, [], 0⟩).2.f := by
  rw [setParentR_forest c hφ fuel n p pos y s h hn hp hy hyn hfuel hf]
  obtain ⟨_, hpn, hanc, _, _⟩ := hf
  have hno : ∀ j, s.up j p ≠ some n := h.chain_avoid_of_not_anc hp (Ne.symm hpn) hanc
  have hno' : ∀ j, (Spec.detached s y).up j p ≠ some n :=
    fun j hj => hno j (Spec.up_detached_some j p n hj)
  have r := Ready.self (Spec.inv_detached h y) hno'
  rw [Spec.detached_n] at r
  exact r.inv_attached hn hp

/-- when the hook does not fire (no-op assignment) nothing happens at all -/
theorem setParentR_noop (c : Cfg) (fuel n p pos y : Nat) (s : Forest) (h : s.parent n = some p) :
    setParentR c fuel n p pos y ⟨s, [], 0⟩ = (.ok (), ⟨s, [], 0⟩) := by
  simp only [setParentR, h, if_true]

/-- the restriction `y ≠ n` cannot be dropped: a `_pre_attach` hook that detaches the very node being attached (`y = n`
does nothing, the node has no parent at that moment) is harmless, but a hook that RE-PARENTS the moving node is outside
this file's vocabulary altogether; within it, `y = n` at position 3 (the `_post_attach` hook detaches the node just
attached) ends with `n` a root - which is NOT what `n.parent = p` after `n.parent = None` gives -/
example : ∃ (s : Forest) (n p : Nat), Inv s ∧ n < s.n ∧ p < s.n ∧ Fires s n p 3 ∧
    (setParentR ⟨.nm, false, noFaults⟩ 8 n p 3 n ⟨s, [], 0⟩).2.f.parent n ≠
      ((setParent ⟨.nm, false, noFaults⟩ 8 n none ⨾ setParent ⟨.nm, false, noFaults⟩ 8 n (some (.node p))) ⟨s, [], 0⟩).2.f.parent n := by
  -- two parentless nodes; `0.parent = 1` whose `_post_attach` hook detaches node 0 again
  refine ⟨⟨2, fun _ => none, fun _ => []⟩, 0, 1, ?_, by decide, by decide, ?_, ?_⟩
  · exact ⟨by intro c p; simp, by intro p; simp, by intro x; exact ⟨1, by simp [Forest.up]⟩,
      by intro x _; simp⟩
  · exact ⟨by simp, by decide, by decide, by decide, by decide⟩
  · decide

end Anytree.Props.C02r
