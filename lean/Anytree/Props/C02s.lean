import Anytree.Props.C02r
import Anytree.Lemmas.Reentrant2
/-!
# C01/C02/C16 — the children deleter during which one child's detach hook detaches ANOTHER node

Companion of `C02r` for `del n.children` (and hence for the delete phase of `n.children = xs`): the detach hook of one child
`x` of `n` executes `y.parent = None` for a node `y ≠ x`.  The call ends exactly where `y.parent = None` followed by
`del n.children` ends; if `y` is itself a child of `n` that is simply where `del n.children` alone ends.
-/
namespace Anytree.Props.C02s
open Anytree

/-- **sequentialisation for the deleter** -/
theorem delChildrenR_eq_seq (c : Cfg) (hφ : c.φ = noFaults) (fuel n x pos y : Nat) (s : Forest)
    (h : Inv s) (hn : n < s.n) (hy : y < s.n) (hx : x ∈ s.children n) (hyx : y ≠ x) (hpos : pos < 2)
    (hfuel : s.n < fuel) :
    let r := delChildrenR c fuel n x pos y ⟨s, [], 0⟩
    let q := (setParent c fuel y none ⨾ delChildren c fuel n) ⟨s, [], 0⟩
    r.1 = .ok () ∧ q.1 = .ok () ∧ r.2.f = q.2.f := by
  obtain ⟨w1, e1, f1⟩ := steps_delChildrenR hφ fuel n x pos y h hfuel hx hyx hpos ⟨s, [], 0⟩ rfl
  obtain ⟨w2, e2, f2⟩ := steps_delSeq hφ fuel n y h hfuel ⟨s, [], 0⟩ rfl
  simp only [e1, e2, f1, f2, and_self]

/-- if the node the hook detaches is a child of `n` itself, the result is that of the plain deleter -/
theorem delChildrenR_sibling (c : Cfg) (hφ : c.φ = noFaults) (fuel n x pos y : Nat) (s : Forest)
    (h : Inv s) (hn : n < s.n) (hx : x ∈ s.children n) (hy : y ∈ s.children n) (hyx : y ≠ x) (hpos : pos < 2)
    (hfuel : s.n < fuel) :
    (delChildrenR c fuel n x pos y ⟨s, [], 0⟩).2.f = (delChildren c fuel n ⟨s, [], 0⟩).2.f := by
  obtain ⟨w1, e1, f1⟩ := steps_delChildrenR hφ fuel n x pos y h hfuel hx hyx hpos ⟨s, [], 0⟩ rfl
  obtain ⟨w2, e2, f2⟩ := steps_delChildren hφ fuel n h hfuel ⟨s, [], 0⟩ rfl
  rw [e1, e2]
  show w1.f = w2.f
  rw [f1, f2, Spec.detached_root (Spec.detachAll_parent_mem s hy)]

/-- **C01 with a re-entrant hook in the deleter** -/
theorem inv_delChildrenR (c : Cfg) (hφ : c.φ = noFaults) (fuel n x pos y : Nat) (s : Forest)
    (h : Inv s) (hn : n < s.n) (hy : y < s.n) (hx : x ∈ s.children n) (hyx : y ≠ x) (hpos : pos < 2)
    (hfuel : s.n < fuel) :
    Inv (delChildrenR c fuel n x pos y ⟨s, [], 0⟩).2.f := by
  obtain ⟨w1, e1, f1⟩ := steps_delChildrenR hφ fuel n x pos y h hfuel hx hyx hpos ⟨s, [], 0⟩ rfl
  rw [e1]
  show Inv w1.f
  rw [f1]
  exact Spec.inv_detached (Spec.inv_detachAll h _) y

/-- the final forest, spelled with the specification's link updates: all former children of `n` detached, and `y` -/
theorem delChildrenR_forest (c : Cfg) (hφ : c.φ = noFaults) (fuel n x pos y : Nat) (s : Forest)
    (h : Inv s) (hx : x ∈ s.children n) (hyx : y ≠ x) (hpos : pos < 2) (hfuel : s.n < fuel) :
    (delChildrenR c fuel n x pos y ⟨s, [], 0⟩).2.f =
      Spec.detached (Spec.detachAll s (s.children n)).1 y := by
  obtain ⟨w1, e1, f1⟩ := steps_delChildrenR hφ fuel n x pos y h hfuel hx hyx hpos ⟨s, [], 0⟩ rfl
  rw [e1]; exact f1

end Anytree.Props.C02s
