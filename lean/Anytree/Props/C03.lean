import Anytree.Lemmas.ForestFault
import Anytree.Lemmas.DelChildren
import Anytree.Props.C01
/-!
# C03 — a refused or hook-vetoed structural change leaves the whole forest untouched

The full statement (`C03_full`) is **false** of the unchanged code: `C03_full_false` proves it from
kernel-checked witnesses (K1–K3), each of which is also a replay on the implementation
(`known_findings.json`).  What is true is proved as `C03_partial_*`; the hypotheses are the
complements of the finding classes.  `K1_state` pins the exact damage of class K1.
-/
namespace Anytree.Props.C03
open Anytree Forest

/-- the call was refused (invalid request) or vetoed by a pre hook -/
def isVeto : Err → Bool
  | .treeError | .loopError | .typeError => true
  | .hook _ k _ => k.isPre
  | _ => false

def errOf : Except Err Unit → Option Err
  | .ok _ => none
  | .error e => some e

def isStructuralCall : Op → Bool
  | .ctor _ _ => false
  | _ => true

/-- **the property as stated**: every refused or pre-hook-vetoed `n.parent = p`, `n.children = xs`
or `del n.children`, from every consistent forest, under every fault schedule, leaves every node's
parent and ordered children as they were -/
def C03_full : Prop :=
  ∀ (c : Cfg) (fuel : Nat) (op : Op) (s : Forest), Inv s → C01.WellFormed s op → s.n < fuel →
    isStructuralCall op = true →
    ∀ e, errOf (exec c fuel op s).res = some e → isVeto e = true → (exec c fuel op s).f.snap = s.snap

/-! ## witnesses: the property is false of the code -/

def mkForest (ops : List Op) : Forest :=
  C01.runHistory 64 (ops.map fun o => (⟨.nm, false, noFaults⟩, o)) Forest.empty

/-- `0 → [1]`, `2` a separate root -/
def sK1 : Forest := mkForest [.ctor none .none, .ctor (some (.node 0)) .none, .ctor none .none]
/-- K1: `1.parent = 2` vetoed by `1._pre_attach(2)` (third hook invocation) -/
def cK1 : Cfg := ⟨.nm, false, fun i _ _ => i == 2⟩
def opK1 : Op := .setParent 1 (some (.node 2))

/-- `0 → [1, 2]` -/
def sK2 : Forest := mkForest [.ctor none .none, .ctor (some (.node 0)) .none, .ctor (some (.node 0)) .none]
/-- K2: `del 0.children` vetoed by the second child's `_pre_detach` (fourth hook invocation) -/
def cK2 : Cfg := ⟨.nm, false, fun i _ _ => i == 3⟩
def opK2 : Op := .delChildren 0

/-- `0 → [1]`, `3 → [2]` -/
def sK3 : Forest := mkForest [.ctor none .none, .ctor (some (.node 0)) .none, .ctor none .none,
  .ctor none .none, .setParent 2 (some (.node 3))]
/-- K3: `1.children = [2, 0]` — `2` is taken from `3`, then `0` (an ancestor of 1) is refused -/
def cK3 : Cfg := ⟨.nm, false, noFaults⟩
def opK3 : Op := .setChildren 1 (some [.node 2, .node 0])

theorem wf_mk (ops : List Op) (h : C01.WellFormedHistory 64 (ops.map fun o => (⟨.nm, false, noFaults⟩, o)) Forest.empty) :
    Inv (mkForest ops) := C01.inv_history 64 _ _ C01.inv_empty h

theorem inv_sK1 : Inv sK1 := wf_mk _ (by decide)

theorem K1_witness :
    errOf (exec cK1 64 opK1 sK1).res = some (.hook 2 .preAttach 1) ∧
    (exec cK1 64 opK1 sK1).f.snap = [(none, []), (none, []), (none, [])] ∧
    sK1.snap = [(none, [1]), (some 0, []), (none, [])] := by decide

theorem K2_witness :
    errOf (exec cK2 64 opK2 sK2).res = some (.hook 3 .preDetach 2) ∧
    (exec cK2 64 opK2 sK2).f.snap = [(none, [2]), (none, []), (some 0, [])] ∧
    sK2.snap = [(none, [1, 2]), (some 0, []), (some 0, [])] := by decide

theorem K3_witness :
    errOf (exec cK3 64 opK3 sK3).res = some .loopError ∧
    (exec cK3 64 opK3 sK3).f.snap = [(none, [1]), (some 0, []), (none, []), (none, [])] ∧
    sK3.snap = [(none, [1]), (some 0, []), (some 3, []), (none, [2])] := by decide +kernel

/-- the property as stated does not hold of the mirror (hence, by the correspondence, of the code) -/
theorem C03_full_false : ¬ C03_full := by
  intro hfull
  have := hfull cK1 64 opK1 sK1 inv_sK1 (by decide) (by decide) rfl (.hook 2 .preAttach 1)
    K1_witness.1 rfl
  rw [K1_witness.2.1, K1_witness.2.2] at this
  exact absurd this (by decide)

/-! ## the part that is true: parent assignment -/

/-- a parent assignment that is refused, or vetoed by `_pre_detach`, or vetoed by `_pre_attach`
while the node is a root, leaves the forest exactly as it was (¬K1) -/
theorem C03_partial_setParent (c : Cfg) (fuel n : Nat) (v : Option Arg) (s : Forest) (h : Inv s)
    (hv : ArgOk s.n v) (hfuel : s.n < fuel) (e : Err)
    (he : (exec c fuel (.setParent n v) s).res = .error e) (hveto : isVeto e = true)
    (hK1 : ∀ i m, e = .hook i .preAttach m → s.parent n = none) :
    (exec c fuel (.setParent n v) s).f = s := by
  have ho := setParent_outcome c fuel n v ⟨s, [], 0⟩ h hv hfuel
  simp only [exec, Op.run] at he ⊢
  generalize (setParent c fuel n v ⟨s, [], 0⟩).1 = r at ho he
  generalize (setParent c fuel n v ⟨s, [], 0⟩).2.f = f' at ho
  cases ho with
  | refused e' _ => rfl
  | noop => rfl
  | preDetach j => rfl
  | postDetach j => cases he; simp [isVeto, HookKind.isPre] at hveto
  | preAttach j => cases he; exact Spec.detached_root (hK1 j n rfl)
  | postAttach j p _ => cases he; simp [isVeto, HookKind.isPre] at hveto
  | detached _ => cases he
  | moved _ _ => cases he

/-- the exact damage of finding K1: a move vetoed by `_pre_attach` leaves the node detached from
its old parent — nothing else differs -/
theorem K1_state (c : Cfg) (fuel n : Nat) (v : Option Arg) (s : Forest) (h : Inv s)
    (hv : ArgOk s.n v) (hfuel : s.n < fuel) (i m : Nat)
    (he : (exec c fuel (.setParent n v) s).res = .error (.hook i .preAttach m)) :
    (exec c fuel (.setParent n v) s).f = Spec.detached s n := by
  have ho := setParent_outcome c fuel n v ⟨s, [], 0⟩ h hv hfuel
  simp only [exec, Op.run] at he ⊢
  generalize (setParent c fuel n v ⟨s, [], 0⟩).1 = r at ho he
  generalize (setParent c fuel n v ⟨s, [], 0⟩).2.f = f' at ho
  cases ho with
  | refused e' hh => cases he; simp at hh
  | noop => cases he
  | preDetach j => cases he
  | postDetach j => cases he
  | preAttach j => rfl
  | postAttach j p _ => cases he
  | detached _ => cases he
  | moved _ _ => cases he

/-- from a consistent forest no internal assertion fires in the parent setter, whatever the hooks do -/
theorem setParent_no_assertion (c : Cfg) (fuel n : Nat) (v : Option Arg) (s : Forest) (h : Inv s)
    (hv : ArgOk s.n v) (hfuel : s.n < fuel) :
    (exec c fuel (.setParent n v) s).res ≠ .error .assertion ∧
    (exec c fuel (.setParent n v) s).res ≠ .error .diverged := by
  have ho := setParent_outcome c fuel n v ⟨s, [], 0⟩ h hv hfuel
  simp only [exec, Op.run]
  generalize (setParent c fuel n v ⟨s, [], 0⟩).1 = r at ho
  generalize (setParent c fuel n v ⟨s, [], 0⟩).2.f = f' at ho
  cases ho with
  | refused e' hh =>
    constructor <;> (intro he; cases he; simp at hh)
  | noop => constructor <;> (intro he; cases he)
  | preDetach j => constructor <;> (intro he; cases he)
  | postDetach j => constructor <;> (intro he; cases he)
  | preAttach j => constructor <;> (intro he; cases he)
  | postAttach j p _ => constructor <;> (intro he; cases he)
  | detached _ => constructor <;> (intro he; cases he)
  | moved _ _ => constructor <;> (intro he; cases he)

/-! ## the part that is true: children assignment refused by its argument checks -/

/-- non-iterable argument, duplicate child, non-node child: nothing is touched and no hook fires -/
theorem C03_partial_setChildren_checks (c : Cfg) (fuel n : Nat) (xs : Option (List Arg)) (s : Forest)
    (hbad : xs = none ∨ ∃ as e, xs = some as ∧ checkChildren c.fl [] as = .error e) :
    (exec c fuel (.setChildren n xs) s).f = s ∧ (exec c fuel (.setChildren n xs) s).log = [] := by
  simp only [exec, Op.run, setChildren]
  cases hbad with
  | inl h => subst h; simp [M.throw]
  | inr h =>
    obtain ⟨as, e, hx, hc⟩ := h
    subst hx
    simp [hc, M.throw]

/-! ## the part that is true: children deletion and the delete phase of a children assignment -/

/-- `del n.children` vetoed by `_pre_detach_children`, or by the *first* child's `_pre_detach`,
leaves the forest exactly as it was — under every fault schedule (¬K2) -/
theorem C03_partial_delChildren (c : Cfg) (fuel n : Nat) (s : Forest) (h : Inv s) (hfuel : s.n < fuel)
    (i : Nat) (k : HookKind) (m : Nat)
    (he : (exec c fuel (.delChildren n) s).res = .error (.hook i k m))
    (hk : k = .preDetachChildren ∨ (k = .preDetach ∧ (s.children n).head? = some m)) :
    (exec c fuel (.delChildren n) s).f = s :=
  delChildren_veto_unchanged c fuel n s h hfuel i k m he hk

/-- the same vetoes in the delete phase of `n.children = xs` -/
theorem C03_partial_setChildren_delete_phase (c : Cfg) (fuel n : Nat) (as : List Arg) (s : Forest)
    (h : Inv s) (hfuel : s.n < fuel) (hchk : checkChildren c.fl [] as = .ok ()) (i : Nat)
    (k : HookKind) (m : Nat)
    (he : (exec c fuel (.delChildren n) s).res = .error (.hook i k m))
    (hk : k = .preDetachChildren ∨ (k = .preDetach ∧ (s.children n).head? = some m)) :
    (exec c (fuel + 1) (.setChildren n (some as)) s).res = .error (.hook i k m) ∧
    (exec c (fuel + 1) (.setChildren n (some as)) s).f = s :=
  setChildren_delete_phase_veto_unchanged c fuel n as s h hfuel hchk i k m he hk

/-- the errors a children deletion can raise: only the detach hooks of the children themselves
(plus the two `*_detach_children` hooks); the forest stays consistent whatever happens -/
theorem delete_loop_errors (c : Cfg) (fuel : Nat) (cs : List Nat) (w : World) (h : Inv w.f) :
    (∀ e, (forM' cs (fun ch => setParent c fuel ch none) w).1 = .error e →
      ∃ i k m, e = .hook i k m ∧ m ∈ cs ∧ (k = .preDetach ∨ k = .postDetach)) ∧
    Inv (forM' cs (fun ch => setParent c fuel ch none) w).2.f :=
  ⟨(detachLoop_errors c fuel cs w h).1, (detachLoop_errors c fuel cs w h).2.1⟩

/-! ## finding K4: a persistently vetoed restore never terminates -/

/-- with a `_pre_attach_children` hook that always raises (a read-only class), `n.children = xs`
neither returns nor raises an ordinary exception, **for every amount of fuel**: the `except` branch
calls the setter again, which is vetoed again (Python: `RecursionError`) -/
theorem K4_persistent_preAttachChildren_diverges (c : Cfg)
    (hφ : c.φ = fun _ k _ => k == .preAttachChildren) (fuel n : Nat) (xs : List Nat) (w : World)
    (h : Inv w.f) :
    (setChildrenNodes c fuel n xs w).1 ≠ .ok () ∧
    ∀ e, e ≠ .diverged → (setChildrenNodes c fuel n xs w).1 ≠ .error e :=
  persistent_preAttachChildren_never_terminates c hφ fuel n xs w h

/-- … and what it leaves behind: `n` has lost its children (they are not re-attached) -/
theorem K4_state (c : Cfg) (hφ : c.φ = fun _ k _ => k == .preAttachChildren) (fuel n : Nat)
    (xs : List Nat) (w : World) (h : Inv w.f) :
    (setChildrenNodes c (fuel + 1) n xs w).2.f = (Spec.delChildren w.f n).f :=
  persistent_preAttachChildren_state c hφ fuel n xs w h


end Anytree.Props.C03
