import Anytree.Props.C03
import Anytree.Lemmas.Restore
/-!
# C03, attach phase of `n.children = xs`

The `try` block of the children setter is vetoed once; the `except` branch
(`self.children = old_children; raise`) runs without further faults and puts every link back.

* `C03_attach_phase_preAttachChildren` (A1) — the setter's own `_pre_attach_children` invocation
  (invocation number `2·|old children| + 2`) raises.
* `A1_position_needed` — the position hypothesis cannot be dropped: an exception
  `hook i0 _pre_attach_children n` can also come out of the *restore* after a `LoopError`
  (finding K3), with damaged links.
* `C03_attach_phase_preAttach` / `C03_attach_phase_preDetach` / `C03_attach_phase_loopError` (A2) —
  the failure happens at an element of the attach loop, and every element attached before it was
  parentless or already a child of `n` (the complement of finding K3).
-/
namespace Anytree.Props.C03
open Anytree Forest

/-- exactly the `i0`-th hook invocation of the call raises -/
def oneShot (i0 : Nat) : Faults := fun i _ _ => i == i0

theorem oneShot_before (c : Cfg) (i0 : Nat) (hφ : c.φ = oneShot i0) : Quiet c 0 i0 := by
  intro i k m _ hlt
  rw [hφ]
  simp only [oneShot, beq_eq_false_iff_ne, ne_eq]
  omega

theorem oneShot_at (c : Cfg) (i0 : Nat) (hφ : c.φ = oneShot i0) (k : HookKind) (m : Nat) :
    c.φ i0 k m = true := by
  rw [hφ]; simp [oneShot]

theorem oneShot_after (c : Cfg) (i0 : Nat) (hφ : c.φ = oneShot i0) :
    ∀ i k m, i0 < i → c.φ i k m = false := by
  intro i k m hlt
  rw [hφ]
  simp only [oneShot, beq_eq_false_iff_ne, ne_eq]
  omega

/-! ## A1 -/

/-- **A1, general schedule.**  No hook of the delete phase raises, the setter's own
`_pre_attach_children` invocation (number `2·|old children| + 2`) raises, no later invocation raises:
the call raises that exception and the forest is exactly the one before the call. -/
theorem C03_attach_phase_preAttachChildren_gen (c : Cfg) (fuel n : Nat) (xs : List Nat) (s : Forest)
    (h : Inv s) (hn : n < s.n) (hfuel : s.n + 3 < fuel) (hnd : xs.Nodup) (i0 : Nat)
    (hi0 : i0 = 2 * (s.children n).length + 2)
    (hbefore : Quiet c 0 i0) (hat : c.φ i0 .preAttachChildren n = true)
    (hafter : ∀ i k m, i0 < i → c.φ i k m = false) :
    (exec c fuel (.setChildren n (some (xs.map Arg.node))) s).res =
      .error (.hook i0 .preAttachChildren n) ∧
    (exec c fuel (.setChildren n (some (xs.map Arg.node))) s).f = s := by
  obtain ⟨f', rfl⟩ : ∃ f', fuel = f' + 1 := ⟨fuel - 1, by omega⟩
  simp only [exec, Op.run, setChildren,
    checkChildren_nodes c.fl xs [] hnd (fun _ _ hm => by simp at hm), argsToNodes_nodes]
  exact setChildrenNodes_preAttachChildren_veto f' n xs ⟨s, [], 0⟩ h (by simp only; omega) hn i0
    (by simp only [Spec.delChildren_log_length h n, hi0]; omega) hbefore hat hafter

/-- **A1.**  Exactly one hook invocation raises, and it is the setter's own `_pre_attach_children`
(invocation number `2·|old children| + 2`): the call raises that exception and the forest is
exactly the one before the call. -/
theorem C03_attach_phase_preAttachChildren (c : Cfg) (fuel n : Nat) (xs : List Nat) (s : Forest)
    (h : Inv s) (hn : n < s.n) (hfuel : s.n + 3 < fuel) (hnd : xs.Nodup) (i0 : Nat)
    (hi0 : i0 = 2 * (s.children n).length + 2) (hφ : c.φ = oneShot i0) :
    (exec c fuel (.setChildren n (some (xs.map Arg.node))) s).res =
      .error (.hook i0 .preAttachChildren n) ∧
    (exec c fuel (.setChildren n (some (xs.map Arg.node))) s).f = s :=
  C03_attach_phase_preAttachChildren_gen c fuel n xs s h hn hfuel hnd i0 hi0
    (oneShot_before c i0 hφ) (oneShot_at c i0 hφ _ _) (oneShot_after c i0 hφ)

/-- **A1 in the form "if the call raises …"**, for an arbitrary tuple of nodes (a tuple with a
duplicate is refused before anything is touched) -/
theorem C03_attach_phase_preAttachChildren' (c : Cfg) (fuel n : Nat) (xs : List Nat) (s : Forest)
    (h : Inv s) (hn : n < s.n) (hfuel : s.n + 3 < fuel) (i0 : Nat)
    (hi0 : i0 = 2 * (s.children n).length + 2) (hφ : c.φ = oneShot i0)
    (_he : (exec c fuel (.setChildren n (some (xs.map Arg.node))) s).res =
      .error (.hook i0 .preAttachChildren n)) :
    (exec c fuel (.setChildren n (some (xs.map Arg.node))) s).f = s := by
  cases hc : checkChildren c.fl [] (xs.map Arg.node) with
  | error e =>
    exact (C03_partial_setChildren_checks c fuel n _ s (Or.inr ⟨_, e, rfl, hc⟩)).1
  | ok u =>
    cases u
    have hnd : xs.Nodup := by
      have := (checkChildren_ok _ _ hc).1
      rwa [argsToNodes_nodes] at this
    exact (C03_attach_phase_preAttachChildren c fuel n xs s h hn hfuel hnd i0 hi0 hφ).2

/-- the position hypothesis of A1 is needed: on `0 → [1]`, `3 → [2]`, the call `1.children = [2, 0]`
with the 12th invocation raising ends with the exception of a `_pre_attach_children` hook of node 1
— raised inside the restore that follows the `LoopError` (K3) — and `2` has changed parents -/
theorem A1_position_needed :
    errOf (exec ⟨.nm, false, oneShot 11⟩ 64 opK3 sK3).res = some (.hook 11 .preAttachChildren 1) ∧
    (exec ⟨.nm, false, oneShot 11⟩ 64 opK3 sK3).f.snap =
      [(none, [1]), (some 0, [2]), (some 1, []), (none, [])] ∧
    sK3.snap = [(none, [1]), (some 0, []), (some 3, []), (none, [2])] := by decide +kernel

/-! ## A2 -/

/-- **A2, `_pre_attach`.**  `xs = pre ++ x :: post`; `x` and the elements before it were parentless
or children of `n` (¬K3) and may become children of `n`; exactly one hook invocation raises: the
`_pre_attach` of `x` in the attach loop (invocation number `2·|old| + 3 + 2·|pre|`).  The call raises
that exception and the forest is exactly the one before the call. -/
theorem C03_attach_phase_preAttach (c : Cfg) (fuel n : Nat) (pre : List Nat) (x : Nat)
    (post : List Nat) (s : Forest) (h : Inv s) (hn : n < s.n) (hfuel : s.n + 3 < fuel)
    (hnd : (pre ++ x :: post).Nodup) (hlt : ∀ y ∈ pre ++ [x], y < s.n)
    (hpar : ∀ y ∈ pre ++ [x], s.parent y = none ∨ s.parent y = some n)
    (hatt : ∀ y ∈ pre ++ [x], y ≠ n ∧ Spec.isAnc s y n = false) (i0 : Nat)
    (hi0 : i0 = 2 * (s.children n).length + 3 + 2 * pre.length) (hφ : c.φ = oneShot i0) :
    (exec c fuel (.setChildren n (some ((pre ++ x :: post).map Arg.node))) s).res =
      .error (.hook i0 .preAttach x) ∧
    (exec c fuel (.setChildren n (some ((pre ++ x :: post).map Arg.node))) s).f = s := by
  obtain ⟨f', rfl⟩ : ∃ f', fuel = f' + 1 := ⟨fuel - 1, by omega⟩
  have hnd1 : (pre ++ [x]).Nodup := by
    have : (pre ++ x :: post) = (pre ++ [x]) ++ post := by simp
    rw [this] at hnd
    exact (List.nodup_append.mp hnd).1
  have hndp : pre.Nodup := (List.nodup_append.mp hnd1).1
  simp only [exec, Op.run, setChildren,
    checkChildren_nodes c.fl _ [] hnd (fun _ _ hm => by simp at hm), argsToNodes_nodes]
  exact setChildrenNodes_preAttach_veto f' n pre x post ⟨s, [], 0⟩ h (by simp only; omega) hn hnd1
    hlt hpar hatt i0
    (by rw [loopWorld_cnt (w := ⟨s, [], 0⟩) h n _ pre hndp (fun y hy => hpar y (by simp [hy])), hi0]
        simp)
    (oneShot_before c i0 hφ) (oneShot_at c i0 hφ _ _) (oneShot_after c i0 hφ)

/-- **A2, `_pre_detach`.**  `x` is a child of another node `q ≠ n`; the elements before it were
parentless or children of `n` (¬K3); exactly one hook invocation raises: the `_pre_detach` of `x`
when the attach loop is about to take it from `q` (invocation number `2·|old| + 3 + 2·|pre|`).
The call raises that exception and the forest is exactly the one before the call. -/
theorem C03_attach_phase_preDetach (c : Cfg) (fuel n : Nat) (pre : List Nat) (x q : Nat)
    (post : List Nat) (s : Forest) (h : Inv s) (hn : n < s.n) (hfuel : s.n + 3 < fuel)
    (hnd : (pre ++ x :: post).Nodup) (hlt : ∀ y ∈ pre, y < s.n)
    (hpar : ∀ y ∈ pre, s.parent y = none ∨ s.parent y = some n)
    (hatt : ∀ y ∈ pre, y ≠ n ∧ Spec.isAnc s y n = false)
    (hxq : s.parent x = some q) (hqn : q ≠ n) (hxatt : x ≠ n ∧ Spec.isAnc s x n = false)
    (i0 : Nat) (hi0 : i0 = 2 * (s.children n).length + 3 + 2 * pre.length)
    (hφ : c.φ = oneShot i0) :
    (exec c fuel (.setChildren n (some ((pre ++ x :: post).map Arg.node))) s).res =
      .error (.hook i0 .preDetach x) ∧
    (exec c fuel (.setChildren n (some ((pre ++ x :: post).map Arg.node))) s).f = s := by
  obtain ⟨f', rfl⟩ : ∃ f', fuel = f' + 1 := ⟨fuel - 1, by omega⟩
  have hndp : pre.Nodup := (List.nodup_append.mp hnd).1
  simp only [exec, Op.run, setChildren,
    checkChildren_nodes c.fl _ [] hnd (fun _ _ hm => by simp at hm), argsToNodes_nodes]
  exact setChildrenNodes_preDetach_veto f' n pre x q post ⟨s, [], 0⟩ h (by simp only; omega) hn hndp
    hlt hpar hatt hxq hqn hxatt i0
    (by rw [loopWorld_cnt (w := ⟨s, [], 0⟩) h n _ pre hndp hpar, hi0]; simp)
    (oneShot_before c i0 hφ) (oneShot_at c i0 hφ _ _) (oneShot_after c i0 hφ)

/-- **A2, `LoopError`.**  No hook raises; `x` is `n` itself or an ancestor of `n`; the elements
before it were parentless or children of `n` (¬K3) and may become children of `n`.  The call raises
`LoopError` and the forest is exactly the one before the call. -/
theorem C03_attach_phase_loopError (c : Cfg) (fuel n : Nat) (pre : List Nat) (x : Nat)
    (post : List Nat) (s : Forest) (h : Inv s) (hn : n < s.n) (hfuel : s.n + 3 < fuel)
    (hnd : (pre ++ x :: post).Nodup) (hlt : ∀ y ∈ pre, y < s.n)
    (hpar : ∀ y ∈ pre, s.parent y = none ∨ s.parent y = some n)
    (hatt : ∀ y ∈ pre, y ≠ n ∧ Spec.isAnc s y n = false)
    (hbad : x = n ∨ Spec.isAnc s x n = true) (hφ : c.φ = noFaults) :
    (exec c fuel (.setChildren n (some ((pre ++ x :: post).map Arg.node))) s).res =
      .error .loopError ∧
    (exec c fuel (.setChildren n (some ((pre ++ x :: post).map Arg.node))) s).f = s := by
  obtain ⟨f', rfl⟩ : ∃ f', fuel = f' + 1 := ⟨fuel - 1, by omega⟩
  have hndp : pre.Nodup := (List.nodup_append.mp hnd).1
  simp only [exec, Op.run, setChildren,
    checkChildren_nodes c.fl _ [] hnd (fun _ _ hm => by simp at hm), argsToNodes_nodes]
  exact setChildrenNodes_loopError_restore f' n pre x post ⟨s, [], 0⟩ h (by simp only; omega) hn hndp
    hlt hpar hatt hbad (fun i k m _ => by rw [hφ]; rfl)

/-- the three A2 statements in the vocabulary of the property: the raised exception is a refusal or
a pre-hook veto -/
example (i x : Nat) : isVeto (.hook i .preAttach x) = true ∧ isVeto (.hook i .preDetach x) = true ∧
    isVeto (.hook i .preAttachChildren x) = true ∧ isVeto .loopError = true := by
  simp [isVeto, HookKind.isPre]

end Anytree.Props.C03
