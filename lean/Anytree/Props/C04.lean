import Anytree.Model.Nav
import Anytree.Spec.Nav
namespace Anytree.Props.C04
end Anytree.Props.C04
