import Anytree.Model.Nav
import Anytree.Spec.Nav
import Anytree.Props.C05
import Anytree.Lemmas.Nav
/-!
# C04 — navigation attributes and sibling/ancestor helpers equal their definitions

Every theorem: mirror (`Nav.*`, the code's loops on the zipper) = definition (`Spec.*`), for every
tree, every node address, no bound on size or depth.
-/
namespace Anytree.Props.C04
open Anytree Tree

variable {α : Type}

/-- a valid node address -/
def Valid (r : Tree α) (a : Addr) : Prop := (sub r a).isSome = true

theorem path_eq (a : Addr) : Nav.path a = Spec.pathS a := Nav.path_eq_prefixes a

/-- the path is the chain from the root down to the node: starts at the root, ends at the node,
consecutive elements are parent and child -/
theorem path_chain (a : Addr) :
    (Spec.pathS a).head? = some [] ∧ (Spec.pathS a).getLast? = some a ∧
    ∀ i (h : i + 1 < (Spec.pathS a).length),
      ((Spec.pathS a)[i + 1]).dropLast = (Spec.pathS a)[i]'(by omega) := by
  refine ⟨?_, ?_, ?_⟩
  · cases a <;> simp [Spec.pathS, Spec.prefixes]
  · rcases snoc_cases a with rfl | ⟨b, i, rfl⟩
    · simp [Spec.pathS, Spec.prefixes]
    · simp [Spec.pathS, Spec.prefixes_concat]
  · intro i h
    simp only [Spec.pathS] at h ⊢
    rw [Spec.prefixes_getElem, Spec.prefixes_getElem]
    rw [Spec.length_prefixes] at h
    rw [List.dropLast_eq_take, List.take_take, List.length_take]
    congr 1
    omega

theorem ancestors_eq (a : Addr) : Nav.ancestors a = Spec.ancestorsS a := by
  unfold Nav.ancestors Spec.ancestorsS
  rcases snoc_cases a with rfl | ⟨b, i, rfl⟩
  · simp [Spec.prefixes]
  · simp [Nav.path_eq_prefixes, Spec.dropLast_prefixes_concat]

theorem root_eq (a : Addr) : Nav.root a = Spec.rootS a := by
  unfold Spec.rootS
  induction a using snoc_induction with
  | h0 => exact Nav.root_nil
  | h1 b i ih => rw [Nav.root_concat, ih]

theorem root_is_path_head (a : Addr) : (Nav.path a).head? = some (Nav.root a) := by
  rw [root_eq, path_eq]
  exact (path_chain a).1

theorem depth_eq (a : Addr) : Nav.depth a = Spec.depthS a := by
  simp [Nav.depth, Spec.depthS, Nav.length_climb]

theorem depth_eq_len_ancestors (a : Addr) : Nav.depth a = (Nav.ancestors a).length := by
  rw [depth_eq, ancestors_eq]
  simp [Spec.depthS, Spec.ancestorsS, Spec.length_prefixes]

theorem isRoot_eq (a : Addr) : Nav.isRoot a = Spec.isRootS a := by
  cases a <;> simp [Nav.isRoot, Spec.isRootS]

theorem isLeaf_eq (r : Tree α) (a : Addr) : Nav.isLeaf r a = Spec.isLeafS r a := by
  simp [Nav.isLeaf, Spec.isLeafS, Nav.childAddrs_eq]

theorem siblings_eq (r : Tree α) (a : Addr) (h : Valid r a) : Nav.siblings r a = Spec.siblingsS r a := by
  unfold Nav.siblings Spec.siblingsS
  rcases snoc_cases a with rfl | ⟨b, i, rfl⟩
  · simp
  · simp only [Nav.childAddrs_eq, List.filter_map, Function.comp_def, List.append_eq_nil_iff,
      List.cons_ne_self, and_false, if_false, List.dropLast_concat, List.getLast?_concat]
    congr 2
    funext x
    simp [bne]

theorem descendants_eq (r : Tree α) (a : Addr) : Nav.descendants r a = Spec.descendantsS r a := by
  unfold Nav.descendants Spec.descendantsS Nav.here
  cases sub r a with
  | none => rfl
  | some t =>
    show ((Iter.preIter C05.allF C05.noS none (addrTreeAux a t)).map label).tail = _
    rw [C05.preIter_eq, C05.pre_decorate, pre_addrTreeAux]
    exact List.map_tail.symm

theorem leaves_eq (r : Tree α) (a : Addr) : Nav.leaves r a = Spec.leavesS r a := by
  unfold Nav.leaves Spec.leavesS Nav.here
  cases sub r a with
  | none => rfl
  | some t =>
    show (Iter.preIter (fun n => n.kids.length == 0) C05.noS none (addrTreeAux a t)).map label = _
    rw [C06.preIter_spec, Spec.preSpec, C05.admit_all, Spec.optPre, leaves_addrTreeAux]

theorem size_eq (r : Tree α) (a : Addr) : Nav.size r a = Spec.sizeS r a := by
  unfold Nav.size Spec.sizeS Nav.here
  cases sub r a with
  | none => rfl
  | some t =>
    show (Iter.preIter C05.allF C05.noS none (addrTreeAux a t)).length = _
    rw [C05.preIter_eq, ← List.length_map (f := label), C05.pre_decorate, pre_addrTreeAux,
      List.length_map, length_addrs]

theorem size_eq_succ_descendants (r : Tree α) (a : Addr) (h : Valid r a) :
    Nav.size r a = 1 + (Nav.descendants r a).length := by
  rw [size_eq, descendants_eq]
  unfold Spec.sizeS Spec.descendantsS
  unfold Valid at h
  cases hs : sub r a with
  | none => simp [hs] at h
  | some t =>
    simp only [List.length_map, List.length_tail, length_addrs]
    cases t; simp only [Tree.size]; omega

theorem height_eq (r : Tree α) (a : Addr) : Nav.height r a = Spec.heightS r a := by
  unfold Nav.height Spec.heightS
  cases sub r a <;> simp [heightT_eq]

/-- `height` is the number of edges on the longest downward path: some node of the subtree lies that
deep and none deeper -/
theorem height_spec (t : Tree α) :
    (∃ b ∈ addrs t, b.length = t.height) ∧ ∀ b ∈ addrs t, b.length ≤ t.height :=
  height_spec_aux t

theorem commonAncestors_eq {β : Type} [DecidableEq β] (ancs : List (List β)) :
    Nav.commonAncestors ancs = Spec.lcpAll ancs := Nav.commonAncestors_eq_lcpAll ancs

/-- the specification really is the longest common prefix -/
theorem lcpAll_prefix {β : Type} [DecidableEq β] (ls : List (List β)) :
    ∀ l ∈ ls, Spec.lcpAll ls <+: l := Spec.lcpAll_prefix' ls

theorem lcpAll_maximal {β : Type} [DecidableEq β] (ls : List (List β)) (hne : ls ≠ [])
    (p : List β) (hp : ∀ l ∈ ls, p <+: l) : p <+: Spec.lcpAll ls := Spec.lcpAll_maximal' ls hne p hp

theorem leftSibling_eq (r : Tree α) (a : Addr) (h : Valid r a) : Nav.leftSibling r a = Spec.leftS r a := by
  unfold Nav.leftSibling Spec.leftS
  rcases snoc_cases a with rfl | ⟨b, i, rfl⟩
  · simp
  · have hi := Spec.lt_nkids_of_valid r b i h
    simp only [List.append_eq_nil_iff, List.cons_ne_self, and_false, if_false,
      List.dropLast_concat, List.getLast?_concat, Nav.idxOf_childAddrs r b i hi]
    by_cases h0 : i = 0
    · simp [h0]
    · have : i - 1 < Spec.nkids r b := by omega
      simp [h0, this, Nav.childAddrs_eq]

theorem rightSibling_eq (r : Tree α) (a : Addr) (h : Valid r a) : Nav.rightSibling r a = Spec.rightS r a := by
  unfold Nav.rightSibling Spec.rightS
  rcases snoc_cases a with rfl | ⟨b, i, rfl⟩
  · simp
  · have hi := Spec.lt_nkids_of_valid r b i h
    simp only [List.append_eq_nil_iff, List.cons_ne_self, and_false, if_false,
      List.dropLast_concat, List.getLast?_concat, Nav.idxOf_childAddrs r b i hi]
    by_cases h1 : i + 1 < Spec.nkids r b
    · simp [h1, Nav.childAddrs_eq]
    · simp [h1, Nav.childAddrs_eq]

end Anytree.Props.C04
