import Anytree.Props.C06
import Mathlib.Data.List.Perm.Basic
/-!
# C05 — each iterator visits every node of the subtree exactly once in its defined order

With default arguments (`filter_` always true, `stop` never, `maxlevel = None`) the mirror of
each iterator equals the textbook traversal; every traversal is a permutation of the pre-order,
so all five enumerate the same nodes, each as often as it occurs (exactly once when payloads
are pairwise distinct — and every shape has such a labelling: its addresses).
-/
namespace Anytree.Props.C05
open Anytree Tree Iter Spec
variable {α : Type}

def allF : Tree α → Bool := fun _ => true
def noS : Tree α → Bool := fun _ => false

theorem admit_all (t : Tree α) : admitT noS none t = some (decorate t) := by
  induction t using Tree.rec
    (motive_2 := fun cs => admitL noS none cs = decorateL cs) with
  | node a cs ih => simp [admitT, cut, noS, lower, decorate] at ih ⊢; exact ih
  | nil => simp [admitL, decorateL]
  | cons c cs ihc ihcs => simp [admitL, decorateL, ihc, ihcs]

theorem filter_allF (l : List (Tree α)) : l.filter allF = l := by simp [allF]
theorem filter_allF' : (List.filter (allF : Tree α → Bool)) = id := by
  funext l; simp [allF]

/-! ## mirror = textbook traversal, for every tree -/

theorem preIter_eq (t : Tree α) : preIter allF noS none t = pre (decorate t) := by
  rw [C06.preIter_spec, preSpec, admit_all, optPre, filter_allF]

theorem postIter_eq (t : Tree α) : postIter allF noS none t = post (decorate t) := by
  rw [C06.postIter_spec, postSpec, admit_all, optPost, filter_allF]

theorem levelIter_eq (t : Tree α) : levelIter allF noS none t = levelOrder (decorate t) := by
  rw [C06.levelIter_spec, levelSpec, admit_all, optLevels, filter_allF, levelOrder]

theorem groupIter_eq (t : Tree α) : groupIter allF noS none t = levels (decorate t) := by
  rw [C06.groupIter_spec, groupSpec, admit_all, optLevels]
  simp [filter_allF']

theorem zigzagIter_eq (t : Tree α) :
    zigzagIter allF noS none t = zigzagSpec (levels (decorate t)) := by
  rw [C06.zigzagIter_spec, zigzagIterSpec, admit_all, optLevels]
  simp [filter_allF']

theorem group_flatten_eq_level (t : Tree α) :
    (groupIter allF noS none t).flatten = levelIter allF noS none t :=
  C06.group_flatten_eq_level _ _ _ _

/-! ## the yielded node objects carry exactly the payloads of the textbook traversal -/

theorem pre_decorate (t : Tree α) : (pre (decorate t)).map label = pre t := by
  induction t using Tree.rec
    (motive_2 := fun cs => (Tree.preL (decorateL cs)).map label = Tree.preL cs) with
  | node a cs ih => simpa [decorate, pre] using ih
  | nil => simp [decorateL, Tree.preL]
  | cons c cs ihc ihcs => simp [decorateL, Tree.preL, ihc, ihcs]

theorem post_decorate (t : Tree α) : (post (decorate t)).map label = post t := by
  induction t using Tree.rec
    (motive_2 := fun cs => (Tree.postL (decorateL cs)).map label = Tree.postL cs) with
  | node a cs ih => simpa [decorate, post] using ih
  | nil => simp [decorateL, Tree.postL]
  | cons c cs ihc ihcs => simp [decorateL, Tree.postL, ihc, ihcs]

theorem atDepth_decorate (t : Tree α) :
    ∀ k, (atDepth k (decorate t)).map label = atDepth k t := by
  induction t using Tree.rec
    (motive_2 := fun cs => ∀ k, (atDepthL k (decorateL cs)).map label = atDepthL k cs) with
  | node a cs ih => intro k; cases k <;> simp [decorate, atDepth, ih]
  | nil => simp [decorateL, atDepthL]
  | cons c cs ihc ihcs => rename_i k; simp [decorateL, atDepthL, ihc, ihcs]

theorem height_decorate (t : Tree α) : height (decorate t) = height t := by
  induction t using Tree.rec
    (motive_2 := fun cs => heightL (decorateL cs) = heightL cs) with
  | node a cs ih => simpa [decorate, height] using ih
  | nil => simp [decorateL, heightL]
  | cons c cs ihc ihcs => simp [decorateL, heightL, ihc, ihcs]

theorem levels_decorate (t : Tree α) : (levels (decorate t)).map (List.map label) = levels t := by
  simp [levels, height_decorate, atDepth_decorate]

/-! ## all traversals enumerate the same nodes -/

theorem pre_perm_post (t : Tree α) : (pre t).Perm (post t) := by
  induction t using Tree.rec
    (motive_2 := fun cs => (Tree.preL cs).Perm (Tree.postL cs)) with
  | node a cs ih =>
    simp only [pre, post]
    exact (List.Perm.cons a ih).trans (List.perm_append_singleton a _).symm
  | nil => simp [Tree.preL, Tree.postL]
  | cons c cs ihc ihcs => simp only [Tree.preL, Tree.postL]; exact ihc.append ihcs

/-- levels of a forest, cut at an arbitrary bound ≥ its height: still a permutation of pre-order -/
theorem levelsL_perm (ts : List (Tree α)) :
    ∀ n, heightL ts ≤ n → ((List.range n).flatMap (fun k => atDepthL k ts)).Perm (Tree.preL ts) := by
  induction ts using Tree.rec_1
    (motive_1 := fun t => ∀ n, height t + 1 ≤ n →
      ((List.range n).flatMap (fun k => atDepth k t)).Perm (pre t)) with
  | node a cs ih =>
    rename_i n hn
    obtain ⟨n', rfl⟩ : ∃ n', n = n' + 1 := ⟨n - 1, by omega⟩
    rw [List.range_succ_eq_map, List.flatMap_cons, List.flatMap_map]
    have h0 : atDepth 0 (node a cs) = [a] := by simp [atDepth]
    have hs : (fun k => atDepth (Nat.succ k) (node a cs)) = fun k => atDepthL k cs := by
      funext k; simp [atDepth]
    rw [h0]
    show ([a] ++ List.flatMap (fun k => atDepth (Nat.succ k) (node a cs)) (List.range n')).Perm _
    rw [hs]
    simp only [pre, List.singleton_append]
    exact List.Perm.cons a (ih n' (by simp [height] at hn; omega))
  | nil => intro n _; simp [atDepthL, Tree.preL]
  | cons c cs ihc ihcs =>
    intro n hn
    simp only [heightL] at hn
    simp only [atDepthL, Tree.preL]
    have h1 := ihc n (by omega)
    have h2 := ihcs n (by omega)
    refine List.Perm.trans ?_ (h1.append h2)
    exact (List.flatMap_append_perm _ _ _).symm

theorem pre_perm_levelOrder (t : Tree α) : (levelOrder t).Perm (pre t) := by
  have h := levelsL_perm [t] (heightL [t]) (Nat.le_refl _)
  simp only [Tree.preL, List.append_nil] at h
  rw [levelOrder, levels_eq_levelsL, levelsL]
  simpa [List.flatMap_def] using h

theorem zigzag_flatten_perm (ls : List (List α)) : (zigzagSpec ls).flatten.Perm ls.flatten := by
  rw [← zzPairs_eq]
  induction ls using zzPairs.induct with
  | case1 => simp [zzPairs]
  | case2 a => simp [zzPairs]
  | case3 a b rest ih =>
    simp only [zzPairs, List.flatten_cons]
    exact List.Perm.append_left _ ((List.reverse_perm b).append ih)

/-- with pairwise distinct payloads, every node is yielded exactly once (pre-order shown; the others
follow from the permutation theorems) -/
theorem preIter_nodup (t : Tree α) (h : (pre t).Nodup) :
    ((preIter allF noS none t).map label).Nodup := by
  rw [preIter_eq, pre_decorate]; exact h

-- non-vacuity
example : let t : Tree Nat := node 0 [node 1 [node 3 [], node 4 []], node 2 [node 5 []]]
    pre t = [0, 1, 3, 4, 2, 5] ∧ post t = [3, 4, 1, 5, 2, 0] ∧ levels t = [[0], [1, 2], [3, 4, 5]] ∧
    zigzagSpec (levels t) = [[0], [2, 1], [3, 4, 5]] ∧ (pre t).Nodup := by decide

end Anytree.Props.C05
