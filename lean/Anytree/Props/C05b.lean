import Anytree.Props.C05
/-!
# C05, the iterator object as a one-pass stream

`AbstractIter.__iter__` returns the object itself and `__next__` pulls from one lazily created
generator, so however a caller consumes an iterator object — a `for` loop left early and resumed,
explicit `next()` calls, several `iter()` handles on the same object — the pieces it sees are
consecutive segments of the one defined order, nothing is visited twice, and an exhausted iterator
stays exhausted.  The object is modelled by the list of nodes still to come.
-/
namespace Anytree.Props.C05b
variable {α : Type}

/-- `next(it)`: the next node and the remaining stream, or `StopIteration` -/
def next : List α → Option (α × List α)
  | [] => none
  | x :: xs => some (x, xs)

/-- take up to `k` elements with `next` (a `for` loop left after `k` items / `k` explicit `next()` calls) -/
def pull : Nat → List α → List α × List α
  | 0, s => ([], s)
  | _ + 1, [] => ([], [])
  | k + 1, x :: xs => let r := pull k xs; (x :: r.1, r.2)

/-- consume the stream in pieces of the given sizes, then drain it (`list(it)`) -/
def pieces : List Nat → List α → List (List α)
  | [], s => [s]
  | k :: ks, s => let r := pull k s; r.1 :: pieces ks r.2

theorem pull_eq (k : Nat) (s : List α) : pull k s = (s.take k, s.drop k) := by
  induction k generalizing s with
  | zero => simp [pull]
  | succ k ih =>
    cases s with
    | nil => simp [pull]
    | cons x xs => simp [pull, ih]

/-- **the pieces concatenate to the defined order**, whatever the piece sizes -/
theorem pieces_flatten (ks : List Nat) (s : List α) : (pieces ks s).flatten = s := by
  induction ks generalizing s with
  | nil => simp [pieces]
  | cons k ks ih => simp [pieces, pull_eq, ih]

/-- an exhausted iterator stays exhausted -/
theorem exhausted_stays : next ([] : List α) = none ∧ pull k ([] : List α) = ([], []) := by
  constructor
  · rfl
  · cases k <;> rfl

/-- for the pre-order iterator with default arguments: consumed in any pieces, every node of the
subtree is seen exactly once, in pre-order -/
theorem preIter_pieces (ks : List Nat) (t : Tree α) :
    (pieces ks (Iter.preIter C05.allF C05.noS none t)).flatten = Tree.pre (Tree.decorate t) := by
  rw [pieces_flatten]; exact C05.preIter_eq t

/-- the same for any of the five iterators: whatever sequence (or sequence of groups) `it` yields -/
theorem any_iter_pieces {β : Type} (it : List β) (ks : List Nat) : (pieces ks it).flatten = it :=
  pieces_flatten ks it

example : pieces [1, 0, 2] [10, 20, 30, 40, 50] = [[10], [], [20, 30], [40, 50]] := by decide

end Anytree.Props.C05b
