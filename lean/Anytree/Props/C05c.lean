import Anytree.Props.C05
/-!
# C05, "exactly once" spelled out for all five iterators

`C05.preIter_nodup` states the exactly-once clause for the pre-order iterator and leaves the other
four to the permutation theorems.  Here the corollaries are stated outright, per iterator, on the
*mirror* (not on the textbook traversal): with default arguments each of the five yields exactly
`size t` nodes, yields a payload iff the pre-order does, and — under pairwise distinct payloads —
yields no node twice.
-/
namespace Anytree.Props.C05c
open Anytree Tree Iter Spec C05
variable {α : Type}

/-- the pre-order lists as many payloads as the tree has nodes -/
theorem pre_length (t : Tree α) : (pre t).length = size t := by
  induction t using Tree.rec
    (motive_2 := fun cs => (Tree.preL cs).length = sizeL cs) with
  | node a cs ih => simp [pre, size, ih]; omega
  | nil => simp [Tree.preL, sizeL]
  | cons c cs ihc ihcs => simp [Tree.preL, sizeL, ihc, ihcs]

theorem levelOrder_decorate (t : Tree α) : (levelOrder (decorate t)).map label = levelOrder t := by
  rw [levelOrder, levelOrder, List.map_flatten, levels_decorate]

/-! ## payloads of what each mirror yields, as permutations of the pre-order -/

theorem postIter_perm (t : Tree α) : ((postIter allF noS none t).map label).Perm (pre t) := by
  rw [postIter_eq, post_decorate]; exact (pre_perm_post t).symm

theorem levelIter_perm (t : Tree α) : ((levelIter allF noS none t).map label).Perm (pre t) := by
  rw [levelIter_eq, levelOrder_decorate]; exact pre_perm_levelOrder t

theorem groupIter_perm (t : Tree α) :
    ((groupIter allF noS none t).flatten.map label).Perm (pre t) := by
  rw [group_flatten_eq_level]; exact levelIter_perm t

theorem zigzagIter_perm (t : Tree α) :
    ((zigzagIter allF noS none t).flatten.map label).Perm (pre t) := by
  rw [zigzagIter_eq]
  refine ((zigzag_flatten_perm _).map label).trans ?_
  have h := levelIter_perm t
  rw [levelIter_eq] at h
  exact h

/-! ## each iterator yields exactly `size t` nodes -/

theorem preIter_length (t : Tree α) : (preIter allF noS none t).length = size t := by
  have h := congrArg List.length (show (preIter allF noS none t).map label = pre t by
    rw [preIter_eq, pre_decorate])
  simpa [pre_length] using h

theorem postIter_length (t : Tree α) : (postIter allF noS none t).length = size t := by
  simpa [pre_length] using (postIter_perm t).length_eq

theorem levelIter_length (t : Tree α) : (levelIter allF noS none t).length = size t := by
  simpa [pre_length] using (levelIter_perm t).length_eq

theorem groupIter_length (t : Tree α) : (groupIter allF noS none t).flatten.length = size t := by
  have h := (groupIter_perm t).length_eq
  rw [List.length_map, pre_length] at h; exact h

theorem zigzagIter_length (t : Tree α) : (zigzagIter allF noS none t).flatten.length = size t := by
  have h := (zigzagIter_perm t).length_eq
  rw [List.length_map, pre_length] at h; exact h

/-! ## every node of the subtree is yielded (a payload is yielded iff the pre-order lists it) -/

theorem postIter_mem (t : Tree α) (x : α) :
    x ∈ (postIter allF noS none t).map label ↔ x ∈ pre t := (postIter_perm t).mem_iff

theorem levelIter_mem (t : Tree α) (x : α) :
    x ∈ (levelIter allF noS none t).map label ↔ x ∈ pre t := (levelIter_perm t).mem_iff

theorem groupIter_mem (t : Tree α) (x : α) :
    x ∈ (groupIter allF noS none t).flatten.map label ↔ x ∈ pre t := (groupIter_perm t).mem_iff

theorem zigzagIter_mem (t : Tree α) (x : α) :
    x ∈ (zigzagIter allF noS none t).flatten.map label ↔ x ∈ pre t := (zigzagIter_perm t).mem_iff

/-! ## … and none twice, when payloads are pairwise distinct -/

/-- post-order: with pairwise distinct payloads no node is yielded twice -/
theorem postIter_nodup (t : Tree α) (h : (pre t).Nodup) :
    ((postIter allF noS none t).map label).Nodup := (postIter_perm t).nodup_iff.mpr h

/-- level-order: with pairwise distinct payloads no node is yielded twice -/
theorem levelIter_nodup (t : Tree α) (h : (pre t).Nodup) :
    ((levelIter allF noS none t).map label).Nodup := (levelIter_perm t).nodup_iff.mpr h

/-- level-order groups: no node occurs twice, neither within a group nor across groups -/
theorem groupIter_nodup (t : Tree α) (h : (pre t).Nodup) :
    ((groupIter allF noS none t).flatten.map label).Nodup := (groupIter_perm t).nodup_iff.mpr h

/-- zig-zag groups: no node occurs twice, neither within a group nor across groups -/
theorem zigzagIter_nodup (t : Tree α) (h : (pre t).Nodup) :
    ((zigzagIter allF noS none t).flatten.map label).Nodup := (zigzagIter_perm t).nodup_iff.mpr h

-- non-vacuity: a tree with distinct payloads, sizes as claimed
example : let t : Tree Nat := node 0 [node 1 [node 3 [], node 4 []], node 2 [node 5 []]]
    (pre t).Nodup ∧ size t = 6 := by decide
example : ((zigzagIter allF noS none
    (node 0 [node 1 [node 3 [], node 4 []], node 2 [node 5 []]] : Tree Nat)).flatten.map label)
      = [0, 2, 1, 3, 4, 5] := by rw [zigzagIter_eq]; decide

end Anytree.Props.C05c
