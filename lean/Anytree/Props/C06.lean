import Anytree.Lemmas.Iter
/-!
# C06 — filter_, stop and maxlevel restrict all five iterators in the same, compositional way

For **every** tree `t`, every `filter_ stop : Tree α → Bool` and every `maxlevel : Option Int`
the mirror of each iterator equals the textbook traversal of the admitted tree (`Spec.admitT`)
followed by `filter_`.  No bound on size, depth or `maxlevel`.
-/
namespace Anytree.Props.C06
open Anytree Tree Iter Spec
variable {α : Type}

theorem preIter_spec (F S : Tree α → Bool) (m : Option Int) (t : Tree α) :
    preIter F S m t = preSpec F S m t := by
  unfold preIter preSpec
  rw [start_eq]
  cases hc : cut m with
  | true => simp [admitT_of_cut S m t hc, optPre, Iter.preL]
  | false =>
    cases hs : S t with
    | true => simp [admitT_of_stop S m t hs, optPre, Iter.preL]
    | false => simp [Iter.preL, pre_mirror F S t m hc]

theorem postIter_spec (F S : Tree α → Bool) (m : Option Int) (t : Tree α) :
    postIter F S m t = postSpec F S m t := by
  unfold postIter postSpec
  rw [abortAt_eq_cut, rem_one]
  cases hc : cut m with
  | true => simp [admitT_of_cut S m t hc, optPost]
  | false =>
    cases hs : S t with
    | true => simp [admitT_of_stop S m t hs, optPost, Iter.postL, hs]
    | false =>
      have := post_mirror F S m t 1 (by rw [rem_one]; exact hc) hs
      rw [rem_one] at this
      simp [Iter.postL, hs, this]

theorem groupIter_spec (F S : Tree α → Bool) (m : Option Int) (t : Tree α) :
    groupIter F S m t = groupSpec F S m t := by
  unfold groupIter groupSpec
  rw [start_eq]
  cases hc : cut m with
  | true => simp [admitT_of_cut S m t hc, optLevels, groupLoop]
  | false =>
    cases hs : S t with
    | true => simp [admitT_of_stop S m t hs, optLevels, groupLoop]
    | false =>
      have h := groupLoop_spec F S m 1 [t] (by rw [rem_one]; exact hc) (by simp [getChildren, hs])
      rw [rem_one] at h
      simp only [Bool.or_self, Bool.false_eq_true, if_false, h, admitL,
        admitT_of_ok S m t hc hs, optLevels, levels_eq_levelsL, List.append_nil]

theorem levelIter_spec (F S : Tree α → Bool) (m : Option Int) (t : Tree α) :
    levelIter F S m t = levelSpec F S m t := by
  have h := groupIter_spec F S m t
  unfold groupIter groupSpec at h
  unfold levelIter levelSpec
  rw [levelLoop_eq_group, h, List.filter_flatten]

theorem zigzagIter_spec (F S : Tree α → Bool) (m : Option Int) (t : Tree α) :
    zigzagIter F S m t = zigzagIterSpec F S m t := by
  unfold zigzagIter zigzagIterSpec
  rw [start_eq]
  cases hc : cut m with
  | true => simp [admitT_of_cut S m t hc, optLevels, zigzagSpec]
  | false =>
    cases hs : S t with
    | true => simp [admitT_of_stop S m t hs, optLevels, zigzagSpec]
    | false =>
      simp only [Bool.or_self, Bool.false_eq_true, if_false, zzPairs_eq, groupIter_spec, groupSpec]

/-- `maxlevel <= 0` yields nothing, for all five -/
theorem maxlevel_nonpos_nil (F S : Tree α → Bool) (k : Int) (hk : k ≤ 0) (t : Tree α) :
    preIter F S (some k) t = [] ∧ postIter F S (some k) t = [] ∧ levelIter F S (some k) t = [] ∧
    groupIter F S (some k) t = [] ∧ zigzagIter F S (some k) t = [] := by
  have hc : cut (some k) = true := by simp [cut, hk]
  rw [preIter_spec, postIter_spec, levelIter_spec, groupIter_spec, zigzagIter_spec]
  simp [preSpec, postSpec, levelSpec, groupSpec, zigzagIterSpec, admitT_of_cut S _ t hc, optPre,
    optPost, optLevels, zigzagSpec]

/-- a start node that satisfies `stop` yields nothing: the start node is subject to `stop` -/
theorem stop_start_nil (F S : Tree α → Bool) (m : Option Int) (t : Tree α) (hs : S t = true) :
    preIter F S m t = [] ∧ postIter F S m t = [] ∧ levelIter F S m t = [] ∧
    groupIter F S m t = [] ∧ zigzagIter F S m t = [] := by
  rw [preIter_spec, postIter_spec, levelIter_spec, groupIter_spec, zigzagIter_spec]
  simp [preSpec, postSpec, levelSpec, groupSpec, zigzagIterSpec, admitT_of_stop S _ t hs, optPre,
    optPost, optLevels, zigzagSpec]

/-- the grouped iterators concatenate to the level-order iterator, under every restriction -/
theorem group_flatten_eq_level (F S : Tree α → Bool) (m : Option Int) (t : Tree α) :
    (groupIter F S m t).flatten = levelIter F S m t := by
  unfold groupIter levelIter
  rw [levelLoop_eq_group]

-- non-vacuity: a height-2 tree with a stop node, a filtered node and maxlevel 2
example :
    let t : Tree Nat := node 0 [node 1 [node 3 [], node 4 []], node 2 [node 5 [node 6 []]]]
    (preSpec (fun n => n.label != 2) (fun n => n.label == 4) (some 2) t).map label = [0, 1] ∧
    (groupSpec (fun n => n.label != 2) (fun n => n.label == 4) (some 3) t).map (List.map label)
      = [[0], [1], [3, 5]] := by
  decide

end Anytree.Props.C06
