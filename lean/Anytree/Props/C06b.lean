import Anytree.Props.C06
import Anytree.Props.C05
import Anytree.Lemmas.Admit
import Anytree.Lemmas.Nav
/-!
# C06b — the admitted tree means what the sentence says

C06 words admission by *positions*: "each of the five iterators visits exactly the admitted nodes —
those at relative depth below `maxlevel` for which no node on the path from the start node down to
and including themselves satisfies `stop` — in the order of its unrestricted traversal, and yields
exactly those admitted nodes for which `filter_` is true."

`Props/C06.lean` proves: mirror of each iterator = textbook traversal of `Spec.admitT` followed by
`filter_`.  Here `Spec.admitT` (a structural recursion) is tied to that sentence:

* `Spec.Admitted S m t a` (in `Lemmas/Admit.lean`) is the sentence, over addresses `a` below `t`;
* the unrestricted traversals of the positions are `addrs t = pre (addrTree t)`, `post (addrTree t)`
  and `levelOrder (addrTree t)` (`addrTree t` is `t` relabelled with addresses; the node at an
  address is `sub t a`);
* every iterator = its unrestricted traversal of the positions, filtered by `Admitted`, looked up,
  filtered by `filter_`.

No bound on size, depth or `maxlevel`; any `filter_`, `stop`.
-/
namespace Anytree.Props.C06b
open Anytree Tree Iter Spec
variable {α : Type}

/-- `addrs t` (all addresses in pre-order) is the pre-order traversal of the address tree -/
theorem addrs_eq_pre_addrTree (t : Tree α) : addrs t = pre (addrTree t) := by
  rw [addrTree, Tree.pre_addrTreeAux]; simp

/-! ## 1. the positional definition and its Boolean version -/

theorem admittedB_iff (S : Tree α → Bool) (m : Option Int) (t : Tree α) (a : Addr) :
    admittedB S m t a = true ↔ Admitted S m t a := Spec.admittedB_iff S m t a

/-! ## 2. every traversal of the admitted tree = unrestricted traversal filtered by admission -/

/-- pre-order -/
theorem pre_positional (S : Tree α → Bool) (m : Option Int) (t : Tree α) :
    optPre (admitT S m t) = ((addrs t).filter (admittedB S m t)).filterMap (sub t) :=
  optPre_admitT_eq S t m

/-- the unfiltered pre-order list, in the same form -/
theorem pre_decorate_positional (t : Tree α) :
    pre (decorate t) = (addrs t).filterMap (sub t) := pre_decorate_eq t

/-- post-order -/
theorem post_positional (S : Tree α → Bool) (m : Option Int) (t : Tree α) :
    optPost (admitT S m t) =
      ((post (addrTree t)).filter (admittedB S m t)).filterMap (sub t) :=
  optPost_admitT_eq S m t

theorem post_decorate_positional (t : Tree α) :
    post (decorate t) = (post (addrTree t)).filterMap (sub t) := post_decorate_eq t

/-- level order -/
theorem level_positional (S : Tree α → Bool) (m : Option Int) (t : Tree α) :
    (optLevels (admitT S m t)).flatten =
      ((levelOrder (addrTree t)).filter (admittedB S m t)).filterMap (sub t) :=
  optLevels_admitT_eq S m t

theorem levelOrder_decorate_positional (t : Tree α) :
    levelOrder (decorate t) = (levelOrder (addrTree t)).filterMap (sub t) :=
  levelOrder_decorate_eq t

theorem optLevels_getElem {β : Type} (o : Option (Tree β)) (k : Nat)
    (hk : k < (optLevels o).length) : (optLevels o)[k] = optAtDepth k o := by
  cases o with
  | none => simp [optLevels] at hk
  | some A => simp [optLevels, levels, optAtDepth]

/-- the single levels: level `k` of the admitted tree is level `k` of the positions, filtered -/
theorem group_positional (S : Tree α → Bool) (m : Option Int) (t : Tree α) (k : Nat)
    (hk : k < (optLevels (admitT S m t)).length) :
    (optLevels (admitT S m t))[k] =
      ((atDepth k (addrTree t)).filter (admittedB S m t)).filterMap (sub t) := by
  have key := optAtDepth_admitT_aux S t k m [] _ _ (tracks_self S m t)
  rw [← addrTree] at key
  rw [← key]
  exact optLevels_getElem _ k hk

/-! ### the iterators themselves -/

theorem preIter_positional (F S : Tree α → Bool) (m : Option Int) (t : Tree α) :
    preIter F S m t = (((addrs t).filter (admittedB S m t)).filterMap (sub t)).filter F := by
  rw [C06.preIter_spec, preSpec, pre_positional]

/-- the same with the `Prop`-valued definition (decidable through `admittedB`) -/
theorem preIter_positional' (F S : Tree α → Bool) (m : Option Int) (t : Tree α) :
    preIter F S m t =
      (((pre (addrTree t)).filter (fun a => decide (Admitted S m t a))).filterMap (sub t)).filter F := by
  rw [preIter_positional, addrs_eq_pre_addrTree]
  congr 3
  funext a; exact admittedB_eq_decide S m t a

theorem postIter_positional (F S : Tree α → Bool) (m : Option Int) (t : Tree α) :
    postIter F S m t =
      (((post (addrTree t)).filter (admittedB S m t)).filterMap (sub t)).filter F := by
  rw [C06.postIter_spec, postSpec, post_positional]

theorem levelIter_positional (F S : Tree α → Bool) (m : Option Int) (t : Tree α) :
    levelIter F S m t =
      (((levelOrder (addrTree t)).filter (admittedB S m t)).filterMap (sub t)).filter F := by
  rw [C06.levelIter_spec, levelSpec, level_positional]

/-- group `k` of `LevelOrderGroupIter` = the admitted nodes at relative depth `k`, left to right,
for which `filter_` is true -/
theorem groupIter_positional (F S : Tree α → Bool) (m : Option Int) (t : Tree α) (k : Nat)
    (hk : k < (groupIter F S m t).length) :
    (groupIter F S m t)[k] =
      (((atDepth k (addrTree t)).filter (admittedB S m t)).filterMap (sub t)).filter F := by
  have hk' : k < (optLevels (admitT S m t)).length := by
    rw [C06.groupIter_spec, groupSpec, List.length_map] at hk; exact hk
  rw [← group_positional S m t k hk']
  simp [C06.groupIter_spec, groupSpec]

/-- group `k` of `ZigZagGroupIter`: the same, reversed for odd `k` -/
theorem zigzagIter_positional (F S : Tree α → Bool) (m : Option Int) (t : Tree α) (k : Nat)
    (hk : k < (zigzagIter F S m t).length) :
    (zigzagIter F S m t)[k] =
      let g := (((atDepth k (addrTree t)).filter (admittedB S m t)).filterMap (sub t)).filter F
      if k % 2 = 1 then g.reverse else g := by
  have hk' : k < (optLevels (admitT S m t)).length := by
    rw [C06.zigzagIter_spec, zigzagIterSpec, zigzagSpec, List.length_mapIdx, List.length_map] at hk
    exact hk
  simp only [← group_positional S m t k hk']
  simp [C06.zigzagIter_spec, zigzagIterSpec, zigzagSpec]

/-- the number of groups is the same for both grouped iterators, and no group count depends on
`filter_` -/
theorem group_count (F S : Tree α → Bool) (m : Option Int) (t : Tree α) :
    (groupIter F S m t).length = (optLevels (admitT S m t)).length ∧
    (zigzagIter F S m t).length = (optLevels (admitT S m t)).length := by
  rw [C06.groupIter_spec, C06.zigzagIter_spec]
  simp [groupSpec, zigzagIterSpec, zigzagSpec]

/-! ## 3. membership -/

/-- the admitted tree holds exactly the nodes at admitted addresses -/
theorem mem_admitted_iff (S : Tree α → Bool) (m : Option Int) (t : Tree α) (x : Tree α) :
    x ∈ optPre (admitT S m t) ↔ ∃ a, sub t a = some x ∧ Admitted S m t a := by
  rw [pre_positional, List.mem_filterMap]
  constructor
  · rintro ⟨a, ha, hx⟩
    rw [List.mem_filter] at ha
    exact ⟨a, hx, (Spec.admittedB_iff S m t a).mp ha.2⟩
  · rintro ⟨a, hx, hA⟩
    refine ⟨a, List.mem_filter.mpr ⟨?_, (Spec.admittedB_iff S m t a).mpr hA⟩, hx⟩
    rw [mem_addrs, hx]; rfl

theorem mem_preIter_iff (F S : Tree α → Bool) (m : Option Int) (t : Tree α) (x : Tree α) :
    x ∈ preIter F S m t ↔ F x = true ∧ ∃ a, sub t a = some x ∧ Admitted S m t a := by
  rw [C06.preIter_spec, preSpec, List.mem_filter, mem_admitted_iff, and_comm]

/-! ## 4. `stop` prunes a whole subtree, `filter_` hides only the node itself -/

/-- a node that satisfies `stop` is not admitted, and neither is anything below it -/
theorem stop_prunes_subtree (S : Tree α → Bool) (m : Option Int) (t : Tree α) (a : Addr)
    (u : Tree α) (hu : sub t a = some u) (hs : S u = true) :
    ∀ a', a <+: a' → ¬ Admitted S m t a' :=
  fun a' h => not_admitted_of_stop S m t a u hu hs a' h

/-- `maxlevel = k` cuts everything at relative depth `≥ k` -/
theorem maxlevel_cuts_depth (S : Tree α → Bool) (k : Int) (t : Tree α) (a : Addr)
    (h : k ≤ (a.length : Int)) : ¬ Admitted S (some k) t a :=
  not_admitted_of_depth S k t a h

/-- conversely, with no `stop` node on the path and depth below `maxlevel`, the node is admitted:
this is the definition — nothing else matters, in particular not `filter_` -/
theorem admitted_intro (S : Tree α → Bool) (m : Option Int) (t : Tree α) (a : Addr)
    (hd : ∀ k, m = some k → (a.length : Int) < k)
    (hp : ∀ b, b <+: a → ∀ u, sub t b = some u → S u = false) : Admitted S m t a := ⟨hd, hp⟩

/-- `filter_` hides only the node itself: an admitted node with `filter_` true is yielded whatever
`filter_` says about its ancestors (or any other node) -/
theorem filter_hides_only_itself (F S : Tree α → Bool) (m : Option Int) (t : Tree α) (a : Addr)
    (x : Tree α) (hx : sub t a = some x) (hA : Admitted S m t a) (hF : F x = true) :
    x ∈ preIter F S m t :=
  (mem_preIter_iff F S m t x).mpr ⟨hF, a, hx, hA⟩

/-- whether `x` is yielded depends on `filter_` only through `filter_ x` -/
theorem mem_preIter_congr_filter (F F' S : Tree α → Bool) (m : Option Int) (t : Tree α)
    (x : Tree α) (h : F x = F' x) : x ∈ preIter F S m t ↔ x ∈ preIter F' S m t := by
  rw [mem_preIter_iff, mem_preIter_iff, h]

/-! ## 5. the same admitted set for all five iterators -/

theorem postSpec_perm_preSpec (F S : Tree α → Bool) (m : Option Int) (t : Tree α) :
    (postSpec F S m t).Perm (preSpec F S m t) := by
  unfold postSpec preSpec
  apply List.Perm.filter
  cases admitT S m t with
  | none => exact List.Perm.refl _
  | some A => exact (C05.pre_perm_post A).symm

theorem levelSpec_perm_preSpec (F S : Tree α → Bool) (m : Option Int) (t : Tree α) :
    (levelSpec F S m t).Perm (preSpec F S m t) := by
  unfold levelSpec preSpec
  apply List.Perm.filter
  cases admitT S m t with
  | none => exact List.Perm.refl _
  | some A => exact C05.pre_perm_levelOrder A

theorem groupSpec_flatten (F S : Tree α → Bool) (m : Option Int) (t : Tree α) :
    (groupSpec F S m t).flatten = levelSpec F S m t := by
  unfold groupSpec levelSpec
  rw [List.filter_flatten]

theorem groupSpec_perm_preSpec (F S : Tree α → Bool) (m : Option Int) (t : Tree α) :
    (groupSpec F S m t).flatten.Perm (preSpec F S m t) := by
  rw [groupSpec_flatten]; exact levelSpec_perm_preSpec F S m t

theorem zigzagIterSpec_perm_preSpec (F S : Tree α → Bool) (m : Option Int) (t : Tree α) :
    (zigzagIterSpec F S m t).flatten.Perm (preSpec F S m t) := by
  have h := C05.zigzag_flatten_perm (groupSpec F S m t)
  exact h.trans (groupSpec_perm_preSpec F S m t)

/-- all five iterators yield the same nodes, each as often as the pre-order iterator does -/
theorem iterators_perm (F S : Tree α → Bool) (m : Option Int) (t : Tree α) :
    (postIter F S m t).Perm (preIter F S m t) ∧
    (levelIter F S m t).Perm (preIter F S m t) ∧
    (groupIter F S m t).flatten.Perm (preIter F S m t) ∧
    (zigzagIter F S m t).flatten.Perm (preIter F S m t) := by
  rw [C06.preIter_spec, C06.postIter_spec, C06.levelIter_spec, C06.groupIter_spec,
    C06.zigzagIter_spec]
  exact ⟨postSpec_perm_preSpec F S m t, levelSpec_perm_preSpec F S m t,
    groupSpec_perm_preSpec F S m t, zigzagIterSpec_perm_preSpec F S m t⟩

/-- membership, for all five -/
theorem mem_iterators_iff (F S : Tree α → Bool) (m : Option Int) (t : Tree α) (x : Tree α) :
    let yielded := F x = true ∧ ∃ a, sub t a = some x ∧ Admitted S m t a
    (x ∈ preIter F S m t ↔ yielded) ∧ (x ∈ postIter F S m t ↔ yielded) ∧
    (x ∈ levelIter F S m t ↔ yielded) ∧ (x ∈ (groupIter F S m t).flatten ↔ yielded) ∧
    (x ∈ (zigzagIter F S m t).flatten ↔ yielded) := by
  obtain ⟨h1, h2, h3, h4⟩ := iterators_perm F S m t
  have h0 := mem_preIter_iff F S m t x
  exact ⟨h0, h1.mem_iff.trans h0, h2.mem_iff.trans h0, h3.mem_iff.trans h0, h4.mem_iff.trans h0⟩

/-! ## 6. in the order of the unrestricted traversal -/

theorem pre_sublist (S : Tree α → Bool) (m : Option Int) (t : Tree α) :
    (optPre (admitT S m t)).Sublist (pre (decorate t)) := optPre_sublist S m t

theorem post_sublist (S : Tree α → Bool) (m : Option Int) (t : Tree α) :
    (optPost (admitT S m t)).Sublist (post (decorate t)) := optPost_sublist S m t

theorem level_sublist (S : Tree α → Bool) (m : Option Int) (t : Tree α) :
    ((optLevels (admitT S m t)).flatten).Sublist (levelOrder (decorate t)) :=
  optLevels_sublist S m t

/-- each restricted iterator yields a sublist of what the unrestricted one yields -/
theorem iterators_sublist (F S : Tree α → Bool) (m : Option Int) (t : Tree α) :
    (preIter F S m t).Sublist (preIter C05.allF C05.noS none t) ∧
    (postIter F S m t).Sublist (postIter C05.allF C05.noS none t) ∧
    (levelIter F S m t).Sublist (levelIter C05.allF C05.noS none t) := by
  rw [C05.preIter_eq, C05.postIter_eq, C05.levelIter_eq, C06.preIter_spec, C06.postIter_spec,
    C06.levelIter_spec]
  exact ⟨List.filter_sublist.trans (pre_sublist S m t),
    List.filter_sublist.trans (post_sublist S m t),
    List.filter_sublist.trans (level_sublist S m t)⟩

/-! ## non-vacuity -/

-- node 1 is filtered out, yet its child 3 is still visited; node 4 satisfies stop and its child 7
-- is pruned with it; maxlevel 3 cuts node 6 (relative depth 3)
example :
    let t : Tree Nat :=
      node 0 [node 1 [node 3 [], node 4 [node 7 []]], node 2 [node 5 [node 6 []]]]
    let F : Tree Nat → Bool := fun n => n.label != 1
    let S : Tree Nat → Bool := fun n => n.label == 4
    (preSpec F S (some 3) t).map label = [0, 3, 2, 5] ∧
    ((addrs t).filter (admittedB S (some 3) t)) = [[], [0], [0, 0], [1], [1, 0]] ∧
    admittedB S (some 3) t [0, 1] = false ∧ admittedB S (some 3) t [0, 1, 0] = false ∧
    admittedB S (some 3) t [1, 0, 0] = false ∧ admittedB S none t [1, 0, 0] = true ∧
    (postSpec F S (some 3) t).map label = [3, 5, 2, 0] ∧
    (((post (addrTree t)).filter (admittedB S (some 3) t)).filterMap (sub t)).map label
      = [3, 1, 5, 2, 0] := by
  decide

end Anytree.Props.C06b
