import Anytree.Props.C06
/-!
# C06, `filter_` composes: filtering twice = filtering by the conjunction

`filter_` is applied to what `stop`/`maxlevel` admit and to nothing else, so for all five iterators
iterating with `filter_ = F ∧ G` equals iterating with `filter_ = F` and discarding afterwards what
`G` rejects (group-wise for the two grouped iterators), under every `stop` and `maxlevel`; in
particular every filtered iteration is the unfiltered one with the rejected nodes dropped.
-/
namespace Anytree.Props.C06c
open Anytree Tree Iter Spec
variable {α : Type}

def andF (F G : Tree α → Bool) : Tree α → Bool := fun x => F x && G x

theorem filter_andF (F G : Tree α → Bool) (l : List (Tree α)) :
    l.filter (andF F G) = (l.filter F).filter G := by
  unfold andF; simp [List.filter_filter, Bool.and_comm]

theorem zigzagSpec_map_filter {β : Type} (G : β → Bool) (ls : List (List β)) :
    zigzagSpec (ls.map (List.filter G)) = (zigzagSpec ls).map (List.filter G) := by
  rw [← zzPairs_eq, ← zzPairs_eq]
  induction ls using zzPairs.induct with
  | case1 => simp [zzPairs]
  | case2 a => simp [zzPairs]
  | case3 a b rest ih => simp [zzPairs, ih, List.filter_reverse]

theorem preIter_and (F G S : Tree α → Bool) (m : Option Int) (t : Tree α) :
    preIter (andF F G) S m t = (preIter F S m t).filter G := by
  simp only [C06.preIter_spec, preSpec, filter_andF]

theorem postIter_and (F G S : Tree α → Bool) (m : Option Int) (t : Tree α) :
    postIter (andF F G) S m t = (postIter F S m t).filter G := by
  simp only [C06.postIter_spec, postSpec, filter_andF]

theorem levelIter_and (F G S : Tree α → Bool) (m : Option Int) (t : Tree α) :
    levelIter (andF F G) S m t = (levelIter F S m t).filter G := by
  simp only [C06.levelIter_spec, levelSpec, filter_andF]

theorem groupIter_and (F G S : Tree α → Bool) (m : Option Int) (t : Tree α) :
    groupIter (andF F G) S m t = (groupIter F S m t).map (List.filter G) := by
  simp only [C06.groupIter_spec, groupSpec, List.map_map]
  congr 1; funext l; simp [filter_andF]

theorem zigzagIter_and (F G S : Tree α → Bool) (m : Option Int) (t : Tree α) :
    zigzagIter (andF F G) S m t = (zigzagIter F S m t).map (List.filter G) := by
  simp only [C06.zigzagIter_spec, zigzagIterSpec, ← zigzagSpec_map_filter, List.map_map]
  congr 2; funext l; simp [filter_andF]

/-- a filtered iteration is the unfiltered one (same `stop`, same `maxlevel`) with the rejected nodes dropped -/
theorem preIter_filter (F S : Tree α → Bool) (m : Option Int) (t : Tree α) :
    preIter F S m t = (preIter (fun _ => true) S m t).filter F := by
  simp only [C06.preIter_spec, preSpec, List.filter_filter]; simp

theorem postIter_filter (F S : Tree α → Bool) (m : Option Int) (t : Tree α) :
    postIter F S m t = (postIter (fun _ => true) S m t).filter F := by
  simp only [C06.postIter_spec, postSpec, List.filter_filter]; simp

theorem levelIter_filter (F S : Tree α → Bool) (m : Option Int) (t : Tree α) :
    levelIter F S m t = (levelIter (fun _ => true) S m t).filter F := by
  simp only [C06.levelIter_spec, levelSpec, List.filter_filter]; simp

-- non-vacuity: F keeps nodes with a child, G keeps the start node's label ≠ 1
example : let t : Tree Nat := node 0 [node 1 [node 3 [], node 4 []], node 2 [node 5 []]]
    let F : Tree Nat → Bool := fun x => !x.kids.isEmpty
    let G : Tree Nat → Bool := fun x => x.label != 1
    ((t.decorate.pre).filter (andF F G)).map label = [0, 2] := by decide

end Anytree.Props.C06c
