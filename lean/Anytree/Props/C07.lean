import Anytree.Spec.Resolver
namespace Anytree.Props.C07
end Anytree.Props.C07
