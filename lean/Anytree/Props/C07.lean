import Anytree.Spec.Resolver
import Anytree.Lemmas.Resolver
/-!
# C07 — Resolver.get returns the node a path denotes and fails cleanly when none exists
-/
namespace Anytree.Props.C07
open Anytree Tree Str Resolver Spec ResolverLemmas
variable {α : Type}

/-- the component loop is the component-by-component walk; with `relax` a failing step gives `None` -/
theorem getLoop_eq_walk (c : Ctx α) (parts : List String) (a : Addr) :
    getLoop c parts a =
      (match walkPath c parts a with
       | .ok n => .ok (some n)
       | .error e => if c.relax then .ok none else .error e) := by
  induction parts generalizing a with
  | nil => simp [getLoop, walkPath]
  | cons p ps ih =>
    simp only [getLoop, walkPath, stepS]
    by_cases h1 : (p == "..") = true
    · simp only [h1, if_true]
      by_cases h2 : a = []
      · simp [h2]
      · simp only [h2, if_false]; exact ih _
    · simp only [h1]
      by_cases h3 : (p == "" || p == ".") = true
      · simp only [h3, if_true]; exact ih _
      · simp only [h3, getChild]
        cases (c.children a).find? (fun ch => cmp c.ignorecase (c.name ch) p) with
        | none => simp
        | some ch => simp only []; exact ih _

/-- **mirror = specification** for every tree, start node and path string, for a non-empty
separator.  (For `sep = ""` — where Python's `str.split` raises `ValueError`, so the model is outside
its domain — `startsWith` always holds and `split` returns one piece, the mirror takes the
"cannot happen" branch and raises even with `relax`, whereas `getS` returns `None`.) -/
theorem get_eq_spec (c : Ctx α) (hsep : c.sep ≠ "") (a : Addr) (path : String) :
    Resolver.get c a path = Spec.getS c a path := by
  unfold Resolver.get start getS getStrictS
  by_cases hs : startsWith path c.sep = true
  · simp only [hs, if_true]
    cases hd : (split c.sep path).drop 1 with
    | nil => exact absurd hd (split_drop_one_ne_nil _ _ hsep hs)
    | cons p0 rest =>
      simp only []
      by_cases h0 : (p0 == "") = true
      · simp only [h0, if_true]; cases c.relax <;> simp
      · simp only [h0]
        by_cases h1 : (!cmp c.ignorecase (c.name []) p0) = true
        · simp only [h1, if_true]; cases c.relax <;> simp
        · simp only [h1]; exact getLoop_eq_walk c rest []
  · simp only [hs]; exact getLoop_eq_walk c _ a

/-- `relax=True` returns `None` in exactly the cases where strict mode raises, and never raises
(non-empty separator, see `get_eq_spec`) -/
theorem get_relaxed (c : Ctx α) (hsep : c.sep ≠ "") (a : Addr) (path : String) :
    Resolver.get { c with relax := true } a path =
      (match Resolver.get { c with relax := false } a path with
       | .ok r => .ok r
       | .error _ => .ok none) := by
  rw [get_eq_spec { c with relax := true } hsep, get_eq_spec { c with relax := false } hsep]
  unfold getS
  rw [getStrictS_relax c true, getStrictS_relax c false]
  cases getStrictS c a path <;> simp

/-- the error is that of the first failing component: `..` above the root ↦ RootResolverError on the
root, an unknown child ↦ ChildResolverError on the node reached so far -/
theorem walk_error_class (c : Ctx α) (parts : List String) (a : Addr) (e : RErr)
    (h : walkPath c parts a = .error e) :
    ∃ pre p post b, parts = pre ++ p :: post ∧ walkPath c pre a = .ok b ∧ stepS c b p = .error e ∧
      ((p = ".." ∧ b = [] ∧ e = .root []) ∨ (e = .child b p ∧ getChild c b p = none)) := by
  induction parts generalizing a with
  | nil => simp [walkPath] at h
  | cons p ps ih =>
    simp only [walkPath] at h
    cases hstep : stepS c a p with
    | ok b' =>
      rw [hstep] at h
      obtain ⟨pre, p', post, b, h1, h2, h3, h4⟩ := ih b' h
      refine ⟨p :: pre, p', post, b, by simp [h1], ?_, h3, h4⟩
      simp only [walkPath, hstep]; exact h2
    | error e' =>
      rw [hstep] at h
      simp only [Except.error.injEq] at h
      subst h
      refine ⟨[], p, ps, a, rfl, rfl, hstep, ?_⟩
      unfold stepS at hstep
      by_cases h1 : (p == "..") = true
      · simp only [h1, if_true] at hstep
        by_cases h2 : a = []
        · subst h2
          simp only [if_true, Except.error.injEq] at hstep
          left
          exact ⟨by simpa using h1, rfl, hstep.symm⟩
        · simp [h2] at hstep
      · simp only [h1] at hstep
        by_cases h3 : (p == "" || p == ".") = true
        · simp [h3] at hstep
        · simp only [h3] at hstep
          right
          unfold getChild
          cases hf : (c.children a).find? (fun ch => cmp c.ignorecase (c.name ch) p) with
          | none => rw [hf] at hstep; simp at hstep; exact ⟨hstep.symm, rfl⟩
          | some ch => rw [hf] at hstep; simp at hstep

/-- a valid address and its children -/
def Valid (c : Ctx α) (a : Addr) : Prop := (sub c.r a).isSome = true

/-- every name used as a path component is usable: not empty, not `.`/`..` (those spellings are
reserved by the first sentence of the property) -/
def NamesUsable (c : Ctx α) : Prop := ∀ a, Valid c a → a ≠ [] → c.name a ≠ "" ∧ c.name a ≠ "." ∧ c.name a ≠ ".."

/-- a prefix of a valid address is valid -/
theorem Valid.prefix {c : Ctx α} {a b : Addr} (h : Valid c (a ++ b)) : Valid c a :=
  sub_isSome_prefix c.r a b h

/-- one step down: the name of the valid child `a ++ [i]` leads from `a` to that child -/
theorem step_child (c : Ctx α) (hu : SiblingUnique c) (hn : NamesUsable c) (a : Addr) (i : Nat)
    (hv : Valid c (a ++ [i])) (hrefl : ∀ s, cmp c.ignorecase s s = true) :
    stepS c a (c.name (a ++ [i])) = .ok (a ++ [i]) := by
  obtain ⟨h1, h2, h3⟩ := hn (a ++ [i]) hv (by simp)
  have hmem := mem_children c a i hv
  unfold stepS
  have e1 : (c.name (a ++ [i]) == "..") = false := by simpa using h3
  have e2 : (c.name (a ++ [i]) == "" || c.name (a ++ [i]) == ".") = false := by simp [h1, h2]
  simp only [e1, e2, Bool.false_eq_true, if_false]
  cases hf : (c.children a).find? (fun ch => cmp c.ignorecase (c.name ch) (c.name (a ++ [i]))) with
  | none =>
    have := List.find?_eq_none.mp hf (a ++ [i]) hmem
    simp [hrefl] at this
  | some y =>
    have hy := List.find?_some hf
    have hym := List.mem_of_find?_eq_some hf
    simp only
    rw [hu a y (a ++ [i]) hym hmem hy]

/-- **downward**: from `a`, the names along a valid address `a ++ b` lead to `a ++ b`, when sibling
names are unique under the resolver's comparison -/
theorem walk_down (c : Ctx α) (hu : SiblingUnique c) (hn : NamesUsable c) (a b : Addr)
    (hv : Valid c (a ++ b)) (hrefl : ∀ s, cmp c.ignorecase s s = true) :
    walkPath c (((prefixes b).drop 1).map (fun p => c.name (a ++ p))) a = .ok (a ++ b) := by
  induction b generalizing a with
  | nil => simp [prefixes, walkPath]
  | cons i b ih =>
    have hv' : Valid c ((a ++ [i]) ++ b) := by simpa using hv
    have hvi : Valid c (a ++ [i]) := hv'.prefix
    rw [prefixes_cons_drop]
    simp only [List.map_cons, walkPath, step_child c hu hn a i hvi hrefl, List.map_map]
    have := ih (a ++ [i]) hv'
    simp only [List.append_assoc, List.singleton_append] at this
    exact this

/-- **upward**: `k` times `..` from an address of length ≥ k climbs `k` levels -/
theorem walk_up (c : Ctx α) (a : Addr) (k : Nat) (hk : k ≤ a.length) :
    walkPath c (List.replicate k "..") a = .ok (a.take (a.length - k)) := by
  induction k generalizing a with
  | zero => simp [walkPath]
  | succ k ih =>
    have hne : a ≠ [] := by intro h; subst h; simp at hk
    simp only [List.replicate_succ, walkPath, stepS, beq_self_eq_true, if_true, hne, if_false]
    rw [ih a.dropLast (by simp; omega)]
    congr 1
    rw [List.dropLast_eq_take, List.take_take]
    congr 1
    simp; omega

/-- `walkPath` over a concatenation -/
theorem walk_append (c : Ctx α) (p q : List String) (a : Addr) :
    walkPath c (p ++ q) a = (match walkPath c p a with | .ok b => walkPath c q b | .error e => .error e) := by
  induction p generalizing a with
  | nil => simp [walkPath]
  | cons x xs ih =>
    simp only [List.cons_append, walkPath]
    cases stepS c a x with
    | ok b => simp only []; exact ih _
    | error e => simp

/-- **get(m, relative path spelled from Walker.walk(m, n)) = n**, on component lists
(validity of the start node `m` is not needed: `..` steps never look at the tree) -/
theorem walk_relParts (c : Ctx α) (hu : SiblingUnique c) (hn : NamesUsable c)
    (hrefl : ∀ s, cmp c.ignorecase s s = true) (m n : Addr) (hm : Valid c m) (hv : Valid c n) :
    walkPath c (relParts c m n) m = .ok n := by
  have _ := hm
  unfold relParts
  simp only
  obtain ⟨r1, h1⟩ := WalkerLemmas.lcp2_prefix_left m n
  obtain ⟨r2, h2⟩ := WalkerLemmas.lcp2_prefix_right m n
  generalize lcp2 m n = k at h1 h2
  subst h1 h2
  rw [walk_append, walk_up _ _ _ (by simp)]
  have e : (k ++ r1).take ((k ++ r1).length - ((k ++ r1).length - k.length)) = k := by
    have : (k ++ r1).length - ((k ++ r1).length - k.length) = k.length := by simp
    rw [this]; simp
  simp only [e]
  rw [below_append, List.map_map]
  exact walk_down c hu hn k r2 hv hrefl

/-- **get(m, absolute path of n) = n**, on component lists: after the root component, the names
below the root lead to `n` from the root, whatever the start node -/
theorem walk_absParts (c : Ctx α) (hu : SiblingUnique c) (hn : NamesUsable c)
    (hrefl : ∀ s, cmp c.ignorecase s s = true) (n : Addr) (hv : Valid c n) :
    walkPath c (namesBelow c n) [] = .ok n := by
  have := walk_down c hu hn [] n (by simpa using hv) hrefl
  simpa [namesBelow] using this

/-- `cmp` is reflexive (so the hypothesis above always holds) -/
theorem cmp_refl (ic : Bool) (s : String) : cmp ic s s = true := by
  unfold cmp; cases ic <;> simp

/-- splitting a joined path gives the components back, for a single-character separator that
occurs in no component -/
theorem split_join_single (sepc : Char) (parts : List String) (hne : parts ≠ [])
    (hfree : ∀ p ∈ parts, sepc ∉ p.toList) :
    split (String.singleton sepc) ((String.singleton sepc).intercalate parts) = parts := by
  cases parts with
  | nil => exact absurd rfl hne
  | cons p ps =>
    unfold split
    rw [← String.length_toList, String.toList_intercalate, String.toList_singleton, List.map_cons]
    rw [splitAux_join sepc _ _ _ [] (by simpa using hfree) (Nat.le_refl _)]
    simp [Function.comp_def]

end Anytree.Props.C07
