import Anytree.Props.C07
/-!
# C07, string level — `get(m, <path string of n>) = n` for any non-empty separator

`Props/C07.lean` proves the round trip on component lists (`walk_absParts`, `walk_relParts`) and the
split/join inverse for one-character separators only.  This file closes the gap: `str.split` undoes
`sep.join` for *every* non-empty separator under the exact side condition (`SepFree`), and the two
round-trip statements of the property are then stated on path *strings*.
-/
namespace Anytree.Props.C07b
open Anytree Tree Str Resolver Spec ResolverLemmas Anytree.Props.C07
variable {α : Type}

/-- the separator occurs in `p ++ sep` only at the very end (so in particular not inside `p`, and no
suffix of `p` followed by a prefix of `sep` spells `sep`) -/
def SepFree (sep p : List Char) : Prop :=
  ∀ i, i < p.length → stripPrefix sep ((p ++ sep).drop i) = none

instance (sep p : List Char) : Decidable (SepFree sep p) := by
  unfold SepFree; exact inferInstance

/-! ## `stripPrefix` is the prefix test -/

theorem stripPrefix_append (sep r : List Char) : stripPrefix sep (sep ++ r) = some r := by
  induction sep with
  | nil => rfl
  | cons x xs ih => simp [stripPrefix, ih]

theorem stripPrefix_eq_some {sep s r : List Char} (h : stripPrefix sep s = some r) : s = sep ++ r := by
  induction sep generalizing s with
  | nil => simp [stripPrefix] at h; simp [h]
  | cons x xs ih =>
    cases s with
    | nil => simp [stripPrefix] at h
    | cons y ys =>
      simp only [stripPrefix] at h
      split at h
      · next hxy => subst hxy; simp [ih h]
      · cases h

theorem stripPrefix_eq_none_iff {sep s : List Char} : stripPrefix sep s = none ↔ ¬ sep <+: s := by
  constructor
  · rintro h ⟨r, hr⟩
    rw [← hr, stripPrefix_append] at h; cases h
  · intro h
    cases hs : stripPrefix sep s with
    | none => rfl
    | some r => exact absurd ⟨r, (stripPrefix_eq_some hs).symm⟩ h

/-- scanning a piece inside which the separator never starts only accumulates it -/
theorem splitAux_scan_gen (sep : List Char) : ∀ (p rest : List Char),
    (∀ i, i < p.length → stripPrefix sep ((p ++ rest).drop i) = none) →
    ∀ (fuel : Nat) (acc : List Char), p.length ≤ fuel →
    splitAux sep fuel (p ++ rest) acc = splitAux sep (fuel - p.length) rest (p.reverse ++ acc) := by
  intro p
  induction p with
  | nil => intro _ _ fuel acc _; simp
  | cons x xs ih =>
    intro rest h fuel acc hf
    cases fuel with
    | zero => simp at hf
    | succ f =>
      have h0 := h 0 (by simp)
      simp only [List.drop_zero, List.cons_append] at h0
      simp only [List.cons_append, splitAux, h0]
      rw [ih rest (fun i hi => by simpa using h (i + 1) (by simpa using hi)) f (x :: acc)
        (by simpa using hf)]
      simp

theorem sepFree_last {sep p : List Char} (h : SepFree sep p) (i : Nat) (hi : i < p.length) :
    stripPrefix sep ((p ++ []).drop i) = none := by
  have := h i hi
  rw [stripPrefix_eq_none_iff] at this ⊢
  intro hp
  apply this
  rw [List.append_nil] at hp
  rw [List.drop_append_of_le_length (by omega)]
  exact hp.trans (List.prefix_append _ _)

theorem sepFree_mid {sep p : List Char} (h : SepFree sep p) (rest : List Char) (i : Nat)
    (hi : i < p.length) : stripPrefix sep ((p ++ (sep ++ rest)).drop i) = none := by
  have := h i hi
  rw [stripPrefix_eq_none_iff] at this ⊢
  intro hp
  apply this
  rw [← List.append_assoc, List.drop_append_of_le_length (by simp; omega)] at hp
  exact List.prefix_of_prefix_length_le hp (List.prefix_append _ _) (by simp; omega)

theorem splitAux_join_gen (sep : List Char) (hsep : sep ≠ []) :
    ∀ (ps : List (List Char)) (p : List Char) (fuel : Nat) (acc : List Char),
    (∀ q ∈ p :: ps, SepFree sep q) → (List.intercalate sep (p :: ps)).length + 1 ≤ fuel →
    splitAux sep fuel (List.intercalate sep (p :: ps)) acc = (acc.reverse ++ p) :: ps := by
  intro ps
  induction ps with
  | nil =>
    intro p fuel acc hfree hf
    rw [intercalate_singleton] at hf ⊢
    have := splitAux_scan_gen sep p [] (sepFree_last (hfree p (by simp))) fuel acc (by omega)
    rw [List.append_nil] at this
    rw [this, splitAux_nil]; simp
  | cons q ps ih =>
    intro p fuel acc hfree hf
    rw [intercalate_cons_cons] at hf ⊢
    rw [List.append_assoc,
      splitAux_scan_gen sep p _ (sepFree_mid (hfree p (by simp)) _) fuel acc (by simp at hf; omega)]
    simp only [List.length_append] at hf
    obtain ⟨s, ss, rfl⟩ : ∃ s ss, sep = s :: ss := by
      cases sep with
      | nil => exact absurd rfl hsep
      | cons s ss => exact ⟨s, ss, rfl⟩
    obtain ⟨f, hf'⟩ : ∃ f, fuel - p.length = f + 1 := ⟨fuel - p.length - 1, by simp at hf; omega⟩
    rw [hf']
    have hsp := stripPrefix_append (s :: ss) (List.intercalate (s :: ss) (q :: ps))
    simp only [List.cons_append] at hsp ⊢
    simp only [splitAux, hsp, List.isEmpty_cons, Bool.false_eq_true, if_false]
    rw [ih q f [] (fun r hr => hfree r (List.mem_cons_of_mem _ hr)) (by simp at hf; omega)]
    simp


theorem toList_ne_nil {s : String} (h : s ≠ "") : s.toList ≠ [] := by
  intro h'; exact h (String.toList_eq_nil_iff.mp h')

/-- the general inverse: Python's leftmost non-overlapping `split` undoes `join` -/
theorem split_join (sep : String) (parts : List String) (hsep : sep ≠ "") (hne : parts ≠ [])
    (hfree : ∀ p ∈ parts, SepFree sep.toList p.toList) :
    split sep (sep.intercalate parts) = parts := by
  cases parts with
  | nil => exact absurd rfl hne
  | cons p ps =>
    unfold split
    rw [← String.length_toList, String.toList_intercalate, List.map_cons]
    rw [splitAux_join_gen sep.toList (toList_ne_nil hsep) _ _ _ [] (by simpa using hfree)
      (Nat.le_refl _)]
    simp [Function.comp_def]

/-- sufficient: the first character of the separator does not occur in the component -/
theorem sepFree_of_head_notin (c : Char) (cs p : List Char) (h : c ∉ p) : SepFree (c :: cs) p := by
  intro i hi
  have : c ≠ p[i] := by intro e; apply h; rw [e]; exact List.getElem_mem hi
  rw [List.drop_append_of_le_length (by omega), List.drop_eq_getElem_cons hi]
  simp only [List.cons_append, stripPrefix, this, if_false]

/-- if the first piece found is `acc.reverse ++ p`, the separator starts nowhere inside `p` -/
theorem splitAux_head (sep : List Char) (hsep : sep ≠ []) : ∀ (p t : List Char) (fuel : Nat)
    (acc : List Char), (splitAux sep fuel (p ++ t) acc).head? = some (acc.reverse ++ p) →
    ∀ i, i < p.length → stripPrefix sep ((p ++ t).drop i) = none := by
  intro p
  induction p with
  | nil => intro _ _ _ _ i hi; simp at hi
  | cons x xs ih =>
    intro t fuel acc h i hi
    have hemp : sep.isEmpty = false := by cases sep <;> simp_all
    cases fuel with
    | zero =>
      simp only [splitAux, List.head?_cons, Option.some.injEq] at h
      have := congrArg List.length h
      simp at this
    | succ f =>
      simp only [List.cons_append, splitAux] at h
      cases hs : stripPrefix sep (x :: (xs ++ t)) with
      | some rest =>
        rw [hs] at h
        simp only [hemp, Bool.false_eq_true, if_false, List.head?_cons, Option.some.injEq] at h
        have := congrArg List.length h
        simp at this
      | none =>
        rw [hs] at h
        simp only at h
        cases i with
        | zero => simpa using hs
        | succ j =>
          have := ih t f (x :: acc) (by simpa using h) j (by simpa using hi)
          simpa using this

/-- `SepFree` is also necessary for a two-component join to split back (so the condition is exact) -/
theorem sepFree_necessary (sep p q : String) (hsep : sep ≠ "")
    (h : split sep (sep.intercalate [p, q]) = [p, q]) : SepFree sep.toList p.toList := by
  unfold split at h
  rw [String.toList_intercalate] at h
  simp only [List.map_cons, List.map_nil, intercalate_cons_cons, intercalate_singleton] at h
  have hh := congrArg List.head? h
  simp only [List.head?_map, List.head?_cons] at hh
  rw [List.append_assoc] at hh
  cases hx : (splitAux sep.toList ((sep.intercalate [p, q]).length + 1)
      (p.toList ++ (sep.toList ++ q.toList)) []).head? with
  | none => rw [hx] at hh; simp at hh
  | some x =>
    rw [hx] at hh
    simp only [Option.map_some, Option.some.injEq] at hh
    have hxp : x = p.toList := by rw [← hh]; simp
    rw [hxp] at hx
    have key := splitAux_head sep.toList (toList_ne_nil hsep) p.toList _ _ [] (by simpa using hx)
    intro i hi
    have := key i hi
    rw [stripPrefix_eq_none_iff] at this ⊢
    intro hp
    apply this
    rw [← List.append_assoc, List.drop_append_of_le_length (by simp; omega)]
    exact hp.trans (List.prefix_append _ _)


/-- the absolute path string of `n`: separator, then the names from the root joined by it -/
def absPath (c : Ctx α) (n : Addr) : String :=
  c.sep ++ c.sep.intercalate (c.name [] :: namesBelow c n)

/-- every name in the tree is free of the separator -/
def NamesSepFree (c : Ctx α) : Prop := ∀ a, Valid c a → SepFree c.sep.toList (c.name a).toList

theorem mem_prefixes_drop_one : ∀ (r p : Addr), p ∈ (prefixes r).drop 1 → p ≠ [] ∧ p <+: r := by
  intro r
  induction r with
  | nil => intro p hp; simp [prefixes] at hp
  | cons i b ih =>
    intro p hp
    rw [prefixes_cons_drop] at hp
    simp only [List.mem_cons, List.mem_map] at hp
    rcases hp with rfl | ⟨p', hp', rfl⟩
    · simp
    · exact ⟨by simp, by simpa using (ih p' hp').2⟩

/-- every component below `k` on the way to a valid `k ++ r` is the name of a valid non-root node -/
theorem mem_below_names (c : Ctx α) (k r : Addr) (hv : Valid c (k ++ r)) (q : String)
    (hq : q ∈ (below k (k ++ r)).map c.name) : ∃ a, Valid c a ∧ a ≠ [] ∧ q = c.name a := by
  rw [below_append] at hq
  simp only [List.mem_map] at hq
  obtain ⟨a, ⟨p, hp, rfl⟩, rfl⟩ := hq
  obtain ⟨hne, s, hs⟩ := mem_prefixes_drop_one r p hp
  refine ⟨k ++ p, ?_, by simp [hne], rfl⟩
  subst hs
  rw [← List.append_assoc] at hv
  exact hv.prefix

theorem mem_namesBelow (c : Ctx α) (n : Addr) (hv : Valid c n) (q : String)
    (hq : q ∈ namesBelow c n) : ∃ a, Valid c a ∧ a ≠ [] ∧ q = c.name a := by
  have := mem_below_names c [] n (by simpa using hv) q
  simp only [below, List.nil_append, List.length_nil, Nat.zero_add] at this
  exact this hq

theorem valid_root (c : Ctx α) : Valid c [] := by simp [Valid, sub]

theorem sepFree_nil (sep : List Char) : SepFree sep [] := by intro i hi; simp at hi

/-- **get(m, absolute path string of n) = n** -/
theorem get_absPath (c : Ctx α) (hsep : c.sep ≠ "") (hu : SiblingUnique c) (hn : NamesUsable c)
    (hf : NamesSepFree c) (hroot : c.name [] ≠ "") (m n : Addr) (hv : Valid c n) :
    Resolver.get c m (absPath c n) = .ok (some n) := by
  have hpath : absPath c n = c.sep.intercalate ("" :: c.name [] :: namesBelow c n) := by
    apply String.toList_injective
    simp [absPath, String.toList_intercalate]
  have hsplit : split c.sep (absPath c n) = "" :: c.name [] :: namesBelow c n := by
    rw [hpath]
    apply split_join _ _ hsep (by simp)
    intro p hp
    simp only [List.mem_cons] at hp
    rcases hp with rfl | rfl | hp
    · exact sepFree_nil _
    · exact hf [] (valid_root c)
    · obtain ⟨a, ha, _, rfl⟩ := mem_namesBelow c n hv p hp
      exact hf a ha
  have hstart : startsWith (absPath c n) c.sep = true := by
    unfold startsWith absPath
    rw [String.toList_append, stripPrefix_append]; rfl
  rw [get_eq_spec c hsep]
  unfold getS getStrictS
  have h0 : (c.name [] == "") = false := by simpa using hroot
  simp only [hstart, hsplit, if_true, List.drop_succ_cons, List.drop_zero, h0, cmp_refl,
    Bool.not_true, Bool.false_eq_true, if_false, walk_absParts c hu hn (cmp_refl _) n hv]


/-- every relative component is `..` or the name of a valid non-root node -/
theorem mem_relParts (c : Ctx α) (m n : Addr) (hv : Valid c n) (q : String)
    (hq : q ∈ relParts c m n) : q = ".." ∨ ∃ a, Valid c a ∧ a ≠ [] ∧ q = c.name a := by
  unfold relParts at hq
  simp only [List.mem_append] at hq
  rcases hq with hq | hq
  · left; exact (List.mem_replicate.mp hq).2
  · right
    obtain ⟨r2, h2⟩ := WalkerLemmas.lcp2_prefix_right m n
    generalize lcp2 m n = k at hq h2
    subst h2
    exact mem_below_names c k r2 hv q hq

/-- a join whose first component is non-empty and separator-free does not start with the separator -/
theorem not_startsWith_join (sep p0 : String) (ps : List String)
    (hfree : SepFree sep.toList p0.toList) (hne : p0 ≠ "") :
    startsWith (sep.intercalate (p0 :: ps)) sep = false := by
  have hpos : 0 < p0.toList.length := by
    cases h : p0.toList with
    | nil => exact absurd (String.toList_eq_nil_iff.mp h) hne
    | cons _ _ => simp
  unfold startsWith
  rw [String.toList_intercalate, List.map_cons]
  cases ps with
  | nil =>
    have := sepFree_last hfree 0 hpos
    simp only [List.append_nil, List.drop_zero] at this
    simp [this]
  | cons q qs =>
    have := sepFree_mid hfree (List.intercalate sep.toList ((q :: qs).map String.toList)) 0 hpos
    simp only [List.drop_zero, List.map_cons] at this
    rw [List.map_cons, intercalate_cons_cons, List.append_assoc, this]; rfl

/-- **get(m, relative path string spelled from Walker.walk(m, n)) = n** -/
theorem get_relPath (c : Ctx α) (hsep : c.sep ≠ "") (hu : SiblingUnique c) (hn : NamesUsable c)
    (hf : NamesSepFree c) (hdots : SepFree c.sep.toList "..".toList)
    (m n : Addr) (hm : Valid c m) (hv : Valid c n) :
    Resolver.get c m (c.sep.intercalate (relParts c m n)) = .ok (some n) := by
  have hwalk := walk_relParts c hu hn (cmp_refl _) m n hm hv
  have hmem := mem_relParts c m n hv
  rw [get_eq_spec c hsep]
  unfold getS getStrictS
  cases hr : relParts c m n with
  | nil =>
    rw [hr] at hwalk
    simp only [walkPath, Except.ok.injEq] at hwalk
    subst hwalk
    have hstart : startsWith "" c.sep = false := by
      unfold startsWith
      cases h : c.sep.toList with
      | nil => exact absurd h (toList_ne_nil hsep)
      | cons _ _ => rfl
    have hsplit : split c.sep "" = [""] := by simp [split, splitAux]
    simp [hstart, hsplit, walkPath, stepS]
  | cons p0 ps =>
    rw [hr] at hwalk hmem
    have hfree : ∀ q ∈ p0 :: ps, SepFree c.sep.toList q.toList ∧ q ≠ "" := by
      intro q hq
      rcases hmem q hq with rfl | ⟨a, ha, hane, rfl⟩
      · exact ⟨hdots, by decide⟩
      · exact ⟨hf a ha, (hn a ha hane).1⟩
    have hsplit := split_join c.sep (p0 :: ps) hsep (by simp) (fun q hq => (hfree q hq).1)
    have hstart := not_startsWith_join c.sep p0 ps (hfree p0 (by simp)).1 (hfree p0 (by simp)).2
    simp only [hstart, hsplit, Bool.false_eq_true, if_false, hwalk]

/-! ## the hypotheses are satisfiable: a concrete tree with the two-character separator `::`

`"b:c"` contains a separator character but is `SepFree`; `"b:"` is not (joined with `::` it reads
`b:::`, where the leftmost match starts inside the component). -/

example : SepFree "::".toList "ab".toList := by decide
example : SepFree "::".toList "b:c".toList := by decide
example : ¬ SepFree "::".toList "b:".toList := by decide
example : SepFree "::".toList "..".toList := by decide

example : split "::" ("::".intercalate ["a", "b:c", "d"]) = ["a", "b:c", "d"] :=
  split_join "::" ["a", "b:c", "d"] (by decide) (by simp) (by decide)

example : "::".intercalate ["a", "b:c", "d"] = "a::b:c::d" := by decide

def exTree : Tree String := .node "root" [.node "a" [.node "b:c" []], .node "d" []]
def exCtx : Ctx String := ⟨exTree, id, "::", false, false⟩

theorem ex_valid (a : Addr) (h : Valid exCtx a) : a = [] ∨ a = [0] ∨ a = [0, 0] ∨ a = [1] := by
  match a, h with
  | [], _ | [0], _ | [0, 0], _ | [1], _ => simp
  | 0 :: 0 :: _ :: _, h => simp [Valid, exCtx, exTree, sub] at h
  | 0 :: (k+1) :: _, h => simp [Valid, exCtx, exTree, sub] at h
  | 1 :: _ :: _, h => simp [Valid, exCtx, exTree, sub] at h
  | (k+2) :: _, h => simp [Valid, exCtx, exTree, sub] at h


theorem ex_sub_none (a : Addr) (h : ¬ Valid exCtx a) : sub exCtx.r a = none := by
  unfold Valid at h
  cases hs : sub exCtx.r a with
  | none => rfl
  | some t => simp [hs] at h

theorem ex_unique : SiblingUnique exCtx := by
  intro a x y hx hy hc
  by_cases hv : Valid exCtx a
  · rcases ex_valid a hv with rfl | rfl | rfl | rfl <;>
      simp [Ctx.children, Nav.childAddrs, exCtx, exTree, sub, List.range, List.range.loop] at hx hy <;>
      rcases hx with rfl | rfl <;> rcases hy with rfl | rfl <;>
      first | rfl | (simp [cmp, Ctx.name, exCtx, exTree, sub] at hc)
  · simp [Ctx.children, Nav.childAddrs, ex_sub_none a hv] at hx

theorem ex_usable : NamesUsable exCtx := by
  intro a hv hne
  rcases ex_valid a hv with rfl | rfl | rfl | rfl <;>
    simp [Ctx.name, exCtx, exTree, sub] at hne ⊢

theorem ex_sepFree : NamesSepFree exCtx := by
  intro a hv
  rcases ex_valid a hv with rfl | rfl | rfl | rfl <;> decide

example : Resolver.get exCtx [1] (absPath exCtx [0, 0]) = .ok (some [0, 0]) :=
  get_absPath exCtx (by decide) ex_unique ex_usable ex_sepFree (by decide) [1] [0, 0]
    (by unfold Valid; decide)
example : absPath exCtx [0, 0] = "::root::a::b:c" := by decide

example : Resolver.get exCtx [1] ("::".intercalate (relParts exCtx [1] [0, 0])) = .ok (some [0, 0]) :=
  get_relPath exCtx (by decide) ex_unique ex_usable ex_sepFree (by decide) [1] [0, 0]
    (by unfold Valid; decide) (by unfold Valid; decide)
example : "::".intercalate (relParts exCtx [1] [0, 0]) = "..::a::b:c" := by decide


end Anytree.Props.C07b
