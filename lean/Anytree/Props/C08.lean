import Anytree.Spec.Resolver
namespace Anytree.Props.C08
end Anytree.Props.C08
