import Anytree.Spec.Resolver
import Anytree.Lemmas.Glob
/-!
# C08 — Resolver.glob returns exactly the nodes a wildcard pattern denotes
-/
namespace Anytree.Props.C08
open Anytree Tree Str Resolver Spec
variable {α : Type}

/-! ## the matcher is the property's wildcard relation -/

/-- the backtracking matcher standing for `re.match('(?ms)' + translate(pat) + '\\Z', name)` decides
exactly: `*` any run of characters, `?` exactly one character, every other character — regex
metacharacters included — only itself, the whole name anchored -/
theorem match_iff_WMatch (ic : Bool) (pat name : List Char) :
    matchToks ic (translate pat) name = true ↔ WMatch ic pat name :=
  GlobL.match_iff_WMatch ic pat name

/-! ## the compiled-pattern cache is unobservable -/

/-- every cached entry is what compiling its key gives -/
def CacheInv (k : Cache) : Prop := ∀ e ∈ k, e.2 = (translate e.1.1.toList, e.1.2)

theorem cacheInv_nil : CacheInv [] := GlobL.cacheInv_nil

/-- one lookup: same answer as without a cache, and the invariant is kept — whatever earlier calls
(by resolvers with any `ignorecase`) left in the cache, including across an eviction -/
theorem matchC_transparent (ic : Bool) (k : Cache) (name pat : String) (h : CacheInv k) :
    (matchC ic k name pat).1 = matchPure ic name pat ∧ CacheInv (matchC ic k name pat).2 :=
  GlobL.matchC_transparent ic k name pat h

/-- the cache never holds more than `_MAXCACHE` entries (one, should `_MAXCACHE` be set to 0): whatever the value of
the constant - the statement does not depend on it -/
theorem matchC_bounded (ic : Bool) (k : Cache) (name pat : String)
    (h : k.length ≤ max Generated.maxCache 1) :
    (matchC ic k name pat).2.length ≤ max Generated.maxCache 1 :=
  GlobL.matchC_bounded ic k name pat h

/-- `glob` with any well-formed cache state gives the result it gives with an empty cache, and leaves
a well-formed cache: the result never depends on earlier calls -/
theorem glob_cache_transparent (legacy : Bool) (c : Ctx α) (a : Addr) (path : String) (k : Cache)
    (h : CacheInv k) :
    (Resolver.glob legacy c a path k).1 = (Resolver.glob legacy c a path []).1 ∧
    CacheInv (Resolver.glob legacy c a path k).2 := by
  obtain ⟨h1, h2⟩ := GlobL.glob_spec legacy c a path k h
  obtain ⟨h3, _⟩ := GlobL.glob_spec legacy c a path [] GlobL.cacheInv_nil
  exact ⟨h1.trans h3.symm, h2⟩

/-! ## relaxed mode: total, and exactly the denoted nodes -/

theorem globRelaxed_eq_denote (c : Ctx α) (hr : c.relax = true) (parts : List String) (a : Addr)
    (k : Cache) (h : CacheInv k) :
    (globM false c parts a k).1 = .ok (denote c parts a) := by
  rw [(GlobL.globM_spec false c parts a k h).1]
  exact GlobL.globP_relaxed c hr parts a

/-- needs a non-empty separator: with `sep = ""` every path "starts with" the separator but splits
into a single component, and the mirror then reports the missing root component as an error even in
relaxed mode (Python's `str.split('')` raises `ValueError`, so that case is outside the model) -/
theorem globRelaxed_eq_spec (c : Ctx α) (hr : c.relax = true) (hsep : c.sep ≠ "") (a : Addr)
    (path : String) :
    (Resolver.glob false c a path []).1 = .ok (globS c a path) := by
  rw [(GlobL.glob_spec false c a path [] GlobL.cacheInv_nil).1]
  exact GlobL.globTopP_relaxed c hr hsep a path

/-! ## strict mode: the same list, or a ResolverError at a genuine dead end -/

/-- every literal (wildcard-free) component of `parts` names at most one child of any node -/
def LiteralUnique (c : Ctx α) (parts : List String) : Prop :=
  ∀ name ∈ parts, isWildcard name = false → ∀ b, (matching c b name).length ≤ 1

/-- the components that follow the first wildcard (`*`, `?`, `**`) component -/
abbrev afterWild : List String → List String := GlobL.afterWild

theorem LiteralUnique.afterWild {c : Ctx α} {parts : List String} (h : LiteralUnique c parts) :
    LiteralUnique c (afterWild parts) :=
  fun name hn => h name (GlobL.afterWild_subset parts name hn)

/-- sibling names pairwise different under `re.IGNORECASE`, the comparison `glob` itself makes -/
abbrev SiblingUniqueRe (c : Ctx α) : Prop := GlobL.SiblingUniqueRe c

/-- … make every literal component unambiguous, whatever the characters of the names -/
theorem literalUnique_of_siblingUniqueRe (c : Ctx α) (hsu : SiblingUniqueRe c) (parts : List String) :
    LiteralUnique c parts :=
  fun name _ hw b => GlobL.literal_unique_of_siblingUniqueRe c hsu name hw b

/-- pairwise different sibling names under the comparison of `get` (`str.upper()`) make every literal
component unambiguous where `str.upper()` and `re.IGNORECASE` agree on the characters of the names
(`CaseAgree`: always without `ignorecase`, for ASCII names, for the regular alphabet; *not* for the
KELVIN/ANGSTROM/OHM signs — children `k` and `K` (U+212A) differ for `get` and both match the
component `k` of a `glob`) -/
theorem literalUnique_of_siblingUnique (c : Ctx α) (hsu : SiblingUnique c)
    (hca : CaseAgree c (fun _ => False)) (parts : List String) :
    LiteralUnique c parts :=
  fun name _ hw b => GlobL.literal_unique_of_siblingUnique c hsu hca name hw b

/-- the two notions of sibling-uniqueness coincide over case-regular names -/
theorem siblingUniqueRe_iff (c : Ctx α) (hca : CaseAgree c (fun _ => False)) :
    SiblingUniqueRe c ↔ SiblingUnique c := GlobL.siblingUniqueRe_iff c hca

/-- The statement needs an assumption: if a literal component matches two siblings and the remainder
fails below one of them, `__find` re-raises and the results below the other sibling are lost; an
enclosing wildcard or `**` component swallows that error, so the call succeeds with fewer nodes than
denoted (root with children `a`(→`b`) and `a`(leaf), pattern `**/a/b` or, one level up, `*/a/b`:
`glob` gives `[]`, the pattern denotes the node `b`).  It suffices that the literal components
*behind the first wildcard component* are unambiguous; `LiteralUnique c parts` or `SiblingUnique c`
imply that. -/
theorem globStrict_ok_eq_denote (c : Ctx α) (hr : c.relax = false) (parts : List String)
    (hu : LiteralUnique c (afterWild parts)) (a : Addr)
    (k : Cache) (h : CacheInv k) (l : List Addr) (hok : (globM false c parts a k).1 = .ok l) :
    l = denote c parts a := by
  rw [(GlobL.globM_spec false c parts a k h).1] at hok
  exact GlobL.globP_strict_ok c hr parts hu a l hok

theorem globStrict_ok_eq_denote_of_siblingUnique (c : Ctx α) (hr : c.relax = false)
    (hsu : SiblingUnique c) (hca : CaseAgree c (fun _ => False)) (parts : List String) (a : Addr)
    (k : Cache) (h : CacheInv k) (l : List Addr) (hok : (globM false c parts a k).1 = .ok l) :
    l = denote c parts a :=
  globStrict_ok_eq_denote c hr parts (literalUnique_of_siblingUnique c hsu hca _) a k h l hok

theorem globStrict_ok_eq_denote_of_siblingUniqueRe (c : Ctx α) (hr : c.relax = false)
    (hsu : SiblingUniqueRe c) (parts : List String) (a : Addr)
    (k : Cache) (h : CacheInv k) (l : List Addr) (hok : (globM false c parts a k).1 = .ok l) :
    l = denote c parts a :=
  globStrict_ok_eq_denote c hr parts (literalUnique_of_siblingUniqueRe c hsu _) a k h l hok

/-- without any assumption on sibling names: every node strict `glob` returns is denoted -/
theorem globStrict_ok_subset_denote (c : Ctx α) (parts : List String) (a : Addr)
    (k : Cache) (h : CacheInv k) (l : List Addr) (hok : (globM false c parts a k).1 = .ok l) :
    ∀ x ∈ l, x ∈ denote c parts a := by
  rw [(GlobL.globM_spec false c parts a k h).1] at hok
  intro x hx
  apply GlobL.globP_subset c parts a x
  rw [hok]; exact hx

set_option linter.unusedVariables false in
theorem globStrict_raises_only_at_dead_end (c : Ctx α) (hr : c.relax = false) (parts : List String)
    (a : Addr) (k : Cache) (h : CacheInv k) (e : RErr) (herr : (globM false c parts a k).1 = .error e) :
    hasDeadEnd c parts a = true := by
  rw [(GlobL.globM_spec false c parts a k h).1] at herr
  exact GlobL.globP_strict_dead c parts a e herr

/-! ## order and duplicates of the denoted list -/

/-- a pattern without `**` and `..` -/
def Plain (parts : List String) : Prop := ∀ p ∈ parts, p ≠ "**" ∧ p ≠ ".."

/-- without `**` and `..` every denoted node lies below the start node, and the list is a sublist of
the pre-order of the start node's subtree -/
theorem denote_preorder (c : Ctx α) (parts : List String) (hp : Plain parts) (a : Addr)
    (hv : (sub c.r a).isSome = true) :
    List.Sublist (denote c parts a) ((Tree.addrs ((sub c.r a).getD c.r)).map (a ++ ·)) := by
  cases hs : sub c.r a with
  | none => rw [hs] at hv; cases hv
  | some t => exact GlobL.denote_preorder c parts hp a t hs

/-- no `..` at all: no duplicates (the general clause of the property — no `..` *after* a name,
wildcard or `**` component — reduces to this after the leading `..`/`.`/`''` steps, which only move
the single start node) -/
theorem denote_nodup (c : Ctx α) (parts : List String) (hp : ∀ p ∈ parts, p ≠ "..") (a : Addr)
    (_hv : (sub c.r a).isSome = true) : (denote c parts a).Nodup :=
  GlobL.denote_nodup c parts hp a

/-- leading `..`, `.` and `''` components just move the start node -/
theorem denote_leading (c : Ctx α) (p : String) (rest : List String) (a : Addr)
    (hp : p = ".." ∨ p = "." ∨ p = "") :
    denote c (p :: rest) a = (if p = ".." then (if a = [] then [] else denote c rest a.dropLast) else denote c rest a) :=
  GlobL.denote_leading c p rest a hp

end Anytree.Props.C08
