import Anytree.Spec.Resolver
import Anytree.Lemmas.Glob
import Anytree.Lemmas.C08b
import Anytree.Props.C07
import Anytree.Props.C08
/-!
# C08b — strict `glob` agrees with `get` on wildcard-free paths over sibling-unique names

Last clause of C08: same node first (in fact: the one-element list of that node), same error — not
only the same error class but the identical `ResolverError` (class, node and component).

With `ignorecase` the two methods compare differently: `get` compares `str.upper()`, `glob` matches
under `re.IGNORECASE`.  The theorems therefore carry `CaseAgree c P` — the two foldings induce the
same equivalence on the characters of the node names and of the path — which is vacuous without
`ignorecase`, proved for ASCII and for the regular alphabet (`Spec.caseAgree_of_ascii`,
`Spec.caseAgree_of_regular`), and cannot be dropped: §4 replays, in the model, the disagreement of the
real code on a child named KELVIN SIGN.
-/
namespace Anytree.Props.C08b
open Anytree Tree Str Resolver Spec
variable {α : Type}

/-! ## 1. a literal name matches exactly itself -/

/-- equal character by character under `eqChar ic`: same length, pairwise `eqChar` -/
abbrev EqChars (ic : Bool) (pat name : List Char) : Prop :=
  List.Forall₂ (fun x c => eqChar ic x c = true) pat name

theorem EqChars.length_eq {ic : Bool} {pat name : List Char} (h : EqChars ic pat name) :
    pat.length = name.length := List.Forall₂.length_eq h

/-- `EqChars` spelled out: same length and `eqChar` on every zipped pair -/
theorem eqChars_iff_zip (ic : Bool) (pat name : List Char) :
    EqChars ic pat name ↔
      pat.length = name.length ∧ ∀ {x c : Char}, (x, c) ∈ pat.zip name → eqChar ic x c = true :=
  List.forall₂_iff_zip

/-- a pattern without `*` and `?` matches a name iff the two are equal character by character
(under `re.IGNORECASE` if `ic`) -/
theorem literal_matches_itself (ic : Bool) (name pat : String) (hw : isWildcard pat = false) :
    matchPure ic name pat = true ↔ EqChars ic pat.toList name.toList :=
  C08bL.matchPure_literal_iff ic name pat hw

/-- `str.upper` agrees on two strings iff the per-character upper cases concatenate to the same string -/
theorem upper_eq_iff (s t : String) :
    upper s = upper t ↔ s.toList.flatMap upperStr = t.toList.flatMap upperStr :=
  C08bL.upper_eq_iff s t

/-- `__cmp` as character-by-character equality under `re.IGNORECASE`, over case-regular characters -/
theorem cmp_iff_eqChars (ic : Bool) (name pat : String)
    {P : Char → Prop} (hP : ic = true → CaseFold.CaseRegular P)
    (hn : ∀ x ∈ name.toList, P x) (hp : ∀ x ∈ pat.toList, P x) :
    cmp ic name pat = true ↔ EqChars ic pat.toList name.toList := by
  rw [C08bL.cmp_iff_norm, ← GlobL.normRe_eq_iff_norm ic hP _ _ hn hp]
  exact (C08bL.eqChars_iff_normRe ic pat.toList name.toList).symm

/-- on a wildcard-free pattern `__match` (regular expression) and `__cmp` (string comparison) are
the same test — over characters on which `str.upper()` and `re.IGNORECASE` agree -/
theorem matchPure_eq_cmp (ic : Bool) (name pat : String) (hw : isWildcard pat = false)
    {P : Char → Prop} (hP : ic = true → CaseFold.CaseRegular P)
    (hn : ∀ x ∈ name.toList, P x) (hp : ∀ x ∈ pat.toList, P x) :
    matchPure ic name pat = cmp ic name pat :=
  C08bL.matchPure_eq_cmp ic name pat hw hP hn hp

/-- … in particular on ASCII strings -/
theorem matchPure_eq_cmp_ascii (ic : Bool) (name pat : String) (hw : isWildcard pat = false)
    (hn : ∀ x ∈ name.toList, x.toNat < 128) (hp : ∀ x ∈ pat.toList, x.toNat < 128) :
    matchPure ic name pat = cmp ic name pat :=
  matchPure_eq_cmp ic name pat hw (fun _ => CaseFold.caseRegular_ascii) hn hp

/-- the same through the compiled-pattern cache -/
theorem matchC_eq_cmp (ic : Bool) (k : Cache) (hk : C08.CacheInv k) (name pat : String)
    (hw : isWildcard pat = false)
    {P : Char → Prop} (hP : ic = true → CaseFold.CaseRegular P)
    (hn : ∀ x ∈ name.toList, P x) (hp : ∀ x ∈ pat.toList, P x) :
    (matchC ic k name pat).1 = cmp ic name pat := by
  rw [(GlobL.matchC_transparent ic k name pat hk).1]
  exact matchPure_eq_cmp ic name pat hw hP hn hp

theorem cmp_symm (ic : Bool) (s t : String) (h : cmp ic s t = true) : cmp ic t s = true :=
  C08bL.cmp_symm ic s t h

theorem cmp_trans (ic : Bool) (s t u : String) (h1 : cmp ic s t = true) (h2 : cmp ic t u = true) :
    cmp ic s u = true :=
  C08bL.cmp_trans ic s t u h1 h2

/-- a literal component selects exactly the children `__get` compares equal -/
theorem matching_literal (c : Ctx α) (a : Addr) (name : String) (hw : isWildcard name = false)
    (hca : CaseAgree c (· ∈ name.toList)) :
    matching c a name = (c.children a).filter (fun ch => cmp c.ignorecase (c.name ch) name) := by
  unfold matching
  congr 1
  exact funext fun ch => matchPure_eq_cmp _ _ _ hw hca
    (fun x hx => Or.inr ⟨ch, hx⟩) (fun x hx => Or.inl hx)

/-- under sibling-uniqueness the child `get` steps to is the only child the literal component
selects (two siblings equal to the pattern are equal to each other: `cmp` is symmetric and
transitive) -/
theorem matching_literal_of_getChild (c : Ctx α) (hsu : SiblingUnique c) (a : Addr) (name : String)
    (hw : isWildcard name = false) (hca : CaseAgree c (· ∈ name.toList))
    (ch : Addr) (h : getChild c a name = some ch) :
    matching c a name = [ch] := by
  rw [matching_literal c a name hw hca]
  exact C08bL.filter_cmp_of_find c hsu a name ch h

theorem matching_literal_of_getChild_none (c : Ctx α) (a : Addr) (name : String)
    (hw : isWildcard name = false) (hca : CaseAgree c (· ∈ name.toList))
    (h : getChild c a name = none) : matching c a name = [] := by
  rw [matching_literal c a name hw hca, List.filter_eq_nil_iff]
  exact List.find?_eq_none.mp h

/-! ## 2. component lists -/

/-- a *plain* component: an ordinary name — not `..`, `.`, `''`, `**`, and free of `*`/`?` -/
def PlainComp (p : String) : Prop :=
  p ≠ ".." ∧ p ≠ "." ∧ p ≠ "" ∧ p ≠ "**" ∧ isWildcard p = false

/-- the components of a wildcard-free path: plain, or one of `..`, `.`, `''` -/
def Admissible (p : String) : Prop := PlainComp p ∨ p = ".." ∨ p = "." ∨ p = ""

/-- … which is just: no `*` and no `?` (`**` is a wildcard component) -/
theorem admissible_iff (p : String) : Admissible p ↔ isWildcard p = false := by
  constructor
  · rintro (h | rfl | rfl | rfl)
    · exact h.2.2.2.2
    · decide
    · decide
    · decide
  · intro hw
    by_cases h1 : p = ".."
    · exact Or.inr (Or.inl h1)
    · by_cases h2 : p = "."
      · exact Or.inr (Or.inr (Or.inl h2))
      · by_cases h3 : p = ""
        · exact Or.inr (Or.inr (Or.inr h3))
        · refine Or.inl ⟨h1, h2, h3, ?_, hw⟩
          intro h4
          rw [h4, C08bL.isWildcard_starstar] at hw
          cases hw

/-- same class of ResolverError -/
def SameClass : RErr → RErr → Prop
  | .root _, .root _ => True
  | .child _ _, .child _ _ => True
  | .plain _, .plain _ => True
  | _, _ => False

theorem SameClass.refl (e : RErr) : SameClass e e := by cases e <;> trivial

/-- **strict `__glob` = the walk of `get`** on admissible component lists over sibling-unique names:
the one-element list of the node the walk reaches, or the very error of the walk's first failing
component.  Holds for every start address (validity is not needed) and every well-formed cache. -/
theorem globM_literal (c : Ctx α) (hr : c.relax = false) (hsu : SiblingUnique c)
    {P : Char → Prop} (hca : CaseAgree c P)
    (parts : List String) (hp : ∀ p ∈ parts, Admissible p)
    (hpP : ∀ p ∈ parts, ∀ x ∈ p.toList, P x) (a : Addr)
    (k : Cache) (hk : C08.CacheInv k) :
    (globM false c parts a k).1 =
      (match walkPath c parts a with
       | .ok b => .ok [b]
       | .error e => .error e) := by
  rw [(GlobL.globM_spec false c parts a k hk).1]
  exact C08bL.globP_literal c hr hsu hca parts (fun p h => (admissible_iff p).mp (hp p h)) hpP a

theorem globM_literal_ok (c : Ctx α) (hr : c.relax = false) (hsu : SiblingUnique c)
    {P : Char → Prop} (hca : CaseAgree c P)
    (parts : List String) (hp : ∀ p ∈ parts, Admissible p)
    (hpP : ∀ p ∈ parts, ∀ x ∈ p.toList, P x) (a : Addr)
    (k : Cache) (hk : C08.CacheInv k) (b : Addr) (h : walkPath c parts a = .ok b) :
    (globM false c parts a k).1 = .ok [b] := by
  rw [globM_literal c hr hsu hca parts hp hpP a k hk, h]

/-- the stronger form: the identical error -/
theorem globM_literal_error (c : Ctx α) (hr : c.relax = false) (hsu : SiblingUnique c)
    {P : Char → Prop} (hca : CaseAgree c P)
    (parts : List String) (hp : ∀ p ∈ parts, Admissible p)
    (hpP : ∀ p ∈ parts, ∀ x ∈ p.toList, P x) (a : Addr)
    (k : Cache) (hk : C08.CacheInv k) (e : RErr) (h : walkPath c parts a = .error e) :
    (globM false c parts a k).1 = .error e := by
  rw [globM_literal c hr hsu hca parts hp hpP a k hk, h]

/-- the form the property states: an error of the same class -/
theorem globM_literal_error_class (c : Ctx α) (hr : c.relax = false) (hsu : SiblingUnique c)
    {P : Char → Prop} (hca : CaseAgree c P)
    (parts : List String) (hp : ∀ p ∈ parts, Admissible p)
    (hpP : ∀ p ∈ parts, ∀ x ∈ p.toList, P x) (a : Addr)
    (k : Cache) (hk : C08.CacheInv k) (e : RErr) (h : walkPath c parts a = .error e) :
    ∃ e', (globM false c parts a k).1 = .error e' ∧ SameClass e e' :=
  ⟨e, globM_literal_error c hr hsu hca parts hp hpP a k hk e h, SameClass.refl e⟩

/-- only `RootResolverError` and `ChildResolverError` arise below the root component -/
theorem walk_error_root_or_child (c : Ctx α) (parts : List String) (a : Addr) (e : RErr)
    (h : walkPath c parts a = .error e) : (∃ n, e = .root n) ∨ (∃ n x, e = .child n x) := by
  obtain ⟨_, p, _, b, _, _, _, h4⟩ := C07.walk_error_class c parts a e h
  rcases h4 with ⟨_, _, h5⟩ | ⟨h5, _⟩
  · exact Or.inl ⟨[], h5⟩
  · exact Or.inr ⟨b, p, h5⟩

/-! ## 3. whole paths -/

/-- no `*`/`?` in the path string ⇒ every component is admissible -/
theorem split_admissible (sep path : String) (hw : isWildcard path = false) :
    ∀ p ∈ split sep path, Admissible p :=
  fun p hp => (admissible_iff p).mpr (C08bL.split_wildcard_free sep path hw p hp)

/-- strict `get` never returns `None` -/
theorem get_strict_ne_none (c : Ctx α) (hr : c.relax = false) (a : Addr) (path : String) :
    Resolver.get c a path ≠ .ok none := by
  rw [C08bL.get_strict c hr a path]
  cases getStrictS c a path <;> simp

/-- **strict `glob` = strict `get`** on a path whose components are all admissible, over
sibling-unique names, from any start node and with any well-formed cache: the one-element list of
the node `get` returns, or the identical error (the root component of an absolute path included:
`__match` and `__cmp` agree on it, both raise the plain `ResolverError` on the root).
No assumption on the separator is needed in strict mode (for `sep = ""` both raise). -/
theorem glob_eq_get_of_components (c : Ctx α) (hr : c.relax = false) (hsu : SiblingUnique c)
    (a : Addr) (path : String) (hca : CaseAgree c (· ∈ path.toList))
    (hp : ∀ p ∈ split c.sep path, Admissible p)
    (k : Cache) (hk : C08.CacheInv k) :
    (Resolver.glob false c a path k).1 =
      (match Resolver.get c a path with
       | .ok (some b) => .ok [b]
       | .ok none => .ok []
       | .error e => .error e) := by
  rw [(GlobL.glob_spec false c a path k hk).1, C08bL.get_strict c hr a path,
    C08bL.globTopP_literal c hr hsu a path hca (fun p h => (admissible_iff p).mp (hp p h))]
  cases getStrictS c a path <;> rfl

/-- the same for a path string without `*` and `?` -/
theorem glob_eq_get (c : Ctx α) (hr : c.relax = false) (hsu : SiblingUnique c)
    (a : Addr) (path : String) (hca : CaseAgree c (· ∈ path.toList)) (hw : isWildcard path = false)
    (k : Cache) (hk : C08.CacheInv k) :
    (Resolver.glob false c a path k).1 =
      (match Resolver.get c a path with
       | .ok (some b) => .ok [b]
       | .ok none => .ok []
       | .error e => .error e) :=
  glob_eq_get_of_components c hr hsu a path hca (split_admissible c.sep path hw) k hk

/-- same node first (and only) -/
theorem glob_ok_of_get_ok (c : Ctx α) (hr : c.relax = false) (hsu : SiblingUnique c)
    (a : Addr) (path : String) (hca : CaseAgree c (· ∈ path.toList)) (hw : isWildcard path = false)
    (k : Cache) (hk : C08.CacheInv k) (b : Addr) (h : Resolver.get c a path = .ok (some b)) :
    (Resolver.glob false c a path k).1 = .ok [b] := by
  rw [glob_eq_get c hr hsu a path hca hw k hk, h]

/-- same error (class, node and component) -/
theorem glob_error_of_get_error (c : Ctx α) (hr : c.relax = false) (hsu : SiblingUnique c)
    (a : Addr) (path : String) (hca : CaseAgree c (· ∈ path.toList)) (hw : isWildcard path = false)
    (k : Cache) (hk : C08.CacheInv k) (e : RErr) (h : Resolver.get c a path = .error e) :
    (Resolver.glob false c a path k).1 = .error e := by
  rw [glob_eq_get c hr hsu a path hca hw k hk, h]

theorem glob_error_class_of_get_error (c : Ctx α) (hr : c.relax = false) (hsu : SiblingUnique c)
    (a : Addr) (path : String) (hca : CaseAgree c (· ∈ path.toList)) (hw : isWildcard path = false)
    (k : Cache) (hk : C08.CacheInv k) (e : RErr) (h : Resolver.get c a path = .error e) :
    ∃ e', (Resolver.glob false c a path k).1 = .error e' ∧ SameClass e e' :=
  ⟨e, glob_error_of_get_error c hr hsu a path hca hw k hk e h, SameClass.refl e⟩

/-- and conversely: whatever strict `glob` gives on a wildcard-free path is what `get` gives -/
theorem get_of_glob (c : Ctx α) (hr : c.relax = false) (hsu : SiblingUnique c)
    (a : Addr) (path : String) (hca : CaseAgree c (· ∈ path.toList)) (hw : isWildcard path = false)
    (k : Cache) (hk : C08.CacheInv k) :
    (∀ l, (Resolver.glob false c a path k).1 = .ok l → ∃ b, l = [b] ∧ Resolver.get c a path = .ok (some b)) ∧
    (∀ e, (Resolver.glob false c a path k).1 = .error e → Resolver.get c a path = .error e) := by
  have hg := glob_eq_get c hr hsu a path hca hw k hk
  have hn := get_strict_ne_none c hr a path
  rcases hget : Resolver.get c a path with e | (_ | b)
  · rw [hget] at hg
    simp only at hg
    rw [hg]
    exact ⟨fun l h => (by cases h), fun e' h => (by cases h; rfl)⟩
  · exact absurd hget hn
  · rw [hget] at hg
    simp only at hg
    rw [hg]
    exact ⟨fun l h => (by cases h; exact ⟨b, rfl, rfl⟩), fun e' h => (by cases h)⟩

/-- the form for ASCII names and an ASCII path (any `ignorecase`) -/
theorem glob_eq_get_ascii (c : Ctx α) (hr : c.relax = false) (hsu : SiblingUnique c)
    (a : Addr) (path : String) (hn : ∀ b, ∀ x ∈ (c.name b).toList, x.toNat < 128)
    (hpa : ∀ x ∈ path.toList, x.toNat < 128) (hw : isWildcard path = false)
    (k : Cache) (hk : C08.CacheInv k) :
    (Resolver.glob false c a path k).1 =
      (match Resolver.get c a path with
       | .ok (some b) => .ok [b]
       | .ok none => .ok []
       | .error e => .error e) :=
  glob_eq_get c hr hsu a path (caseAgree_of_ascii c _ hn hpa) hw k hk

/-- … and without `ignorecase`, whatever the characters -/
theorem glob_eq_get_caseSensitive (c : Ctx α) (hr : c.relax = false) (hic : c.ignorecase = false)
    (hsu : SiblingUnique c) (a : Addr) (path : String) (hw : isWildcard path = false)
    (k : Cache) (hk : C08.CacheInv k) :
    (Resolver.glob false c a path k).1 =
      (match Resolver.get c a path with
       | .ok (some b) => .ok [b]
       | .ok none => .ok []
       | .error e => .error e) :=
  glob_eq_get c hr hsu a path (caseAgree_of_ignorecase_false c _ hic) hw k hk

/-! ## 4. `CaseAgree` cannot be dropped

A root with the single child `K` (U+212A KELVIN SIGN), `ignorecase=True`, strict: `get(root, "k")`
raises `ChildResolverError` (`"K".upper()` is the sign itself, not `"K"`), while `glob(root, "k")`
returns the child (`re.IGNORECASE` folds the sign to `k`).  The names are sibling-unique.  This is the
behaviour of the real code too (the `casefold` cases of the correspondence run replay it). -/

def kTree : Tree String := .node "root" [.node "\u212a" []]
def kCtx : Ctx String := ⟨kTree, id, "/", true, false⟩

example : matchPure true "\u212a" "k" = true ∧ cmp true "\u212a" "k" = false := by decide
example : Resolver.get kCtx [] "k" = .error (.child [] "k") := by decide
#guard (Resolver.glob false kCtx [] "k" []).1 == .ok [[0]]      -- evaluated, not kernel-checked
example : SiblingUnique kCtx := by
  intro a x y hx hy _
  match a, hx, hy with
  | [], hx, hy =>
    have h1 : x = [0] := by simpa [kCtx, kTree, Ctx.children, Nav.childAddrs, sub] using hx
    have h2 : y = [0] := by simpa [kCtx, kTree, Ctx.children, Nav.childAddrs, sub] using hy
    rw [h1, h2]
  | [0], hx, _ => simp [kCtx, kTree, Ctx.children, Nav.childAddrs, sub] at hx
  | 0 :: _ :: _, hx, _ => simp [kCtx, kTree, Ctx.children, Nav.childAddrs, sub] at hx
  | (_ + 1) :: _, hx, _ => simp [kCtx, kTree, Ctx.children, Nav.childAddrs, sub] at hx
example : ¬ CaseAgree kCtx (· ∈ "k".toList) := by
  intro h
  have := (h rfl).2 '\u212a' 'k' (Or.inr ⟨[0], by decide⟩) (Or.inl (by decide))
  exact CaseFold.signs_irregular.1.2 (this.mp CaseFold.signs_irregular.1.1)

/-- with a regular non-ASCII letter instead the two agree, as the theorem says -/
def eTree : Tree String := .node "root" [.node "\u00c9" []]
def eCtx : Ctx String := ⟨eTree, id, "/", true, false⟩
example : matchPure true "\u00c9" "\u00e9" = true ∧ cmp true "\u00c9" "\u00e9" = true := by decide
example : Resolver.get eCtx [] "\u00e9" = .ok (some [0]) := by decide
#guard (Resolver.glob false eCtx [] "\u00e9" []).1 == .ok [[0]]

/-- the second kind of disagreement, from the other side: a child named `ß` is found by
`get(root, "ss")` (`"ß".upper()` is `"SS"`) and not by `glob(root, "ss")` (`re.IGNORECASE` lets `ß`
match only `ß` and `ẞ`) -/
def sTree : Tree String := .node "root" [.node "\u00df" []]
def sCtx : Ctx String := ⟨sTree, id, "/", true, false⟩
example : matchPure true "\u00df" "ss" = false ∧ cmp true "\u00df" "ss" = true := by decide
example : Resolver.get sCtx [] "ss" = .ok (some [0]) := by decide
#guard (Resolver.glob false sCtx [] "ss" []).1 == .error (.child [] "ss")      -- evaluated, not kernel-checked

end Anytree.Props.C08b
