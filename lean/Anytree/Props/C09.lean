import Anytree.Spec.Render
namespace Anytree.Props.C09
end Anytree.Props.C09
