import Anytree.Spec.Render
import Anytree.Lemmas.Render
/-!
# C09 — RenderTree draws every tree faithfully; prefixes encode each node's position
-/
namespace Anytree.Props.C09
open Anytree Tree Render Spec
variable {α : Type}

/-- `childiter` only returns children it was given -/
def Selects (childiter : List (Tree α) → List (Tree α)) : Prop :=
  ∀ cs, ∀ x ∈ childiter cs, x ∈ cs

/-- **rows = specification**: one row per node of the rendered view (childiter applied at every
level, cut at depth `max(maxlevel, 1)`), in pre-order, `pre`/`fill` the stated function of the
node's address in the view -/
theorem rows_eq_spec (style : Style) (childiter : List (Tree α) → List (Tree α))
    (maxlevel : Option Int) (t : Tree α) :
    (rows style childiter maxlevel t).map (fun r => (r.pre, r.fill, r.node.label)) =
      rowsS style childiter maxlevel t := by
  have h := nextF_eq_specRows style childiter maxlevel (t.height + 1) t [] 0
  simp only [specRows, List.nil_append] at h
  exact h

/-- the root's `pre` and `fill` are empty -/
theorem root_row_empty (style : Style) (childiter : List (Tree α) → List (Tree α))
    (maxlevel : Option Int) (t : Tree α) :
    (rowsS style childiter maxlevel t).head? = some ("", "", t.label) := by
  have hl := renderView_label childiter maxlevel (t.height + 1) 0 t
  generalize hv : renderView childiter maxlevel (t.height + 1) 0 t = v at hl
  simp only [rowsS, hv]
  cases v with
  | node a cs =>
    simp only [label_node] at hl
    simp [addrs, sub, prefixesAt_eq_pf, flagsAt_nil, pf_nil, hl]

/-- `maxlevel ≤ 1` (including 0 and negative values) renders the start node only -/
theorem maxlevel_le_one (style : Style) (childiter : List (Tree α) → List (Tree α)) (k : Int)
    (hk : k ≤ 1) (t : Tree α) : rowsS style childiter (some k) t = [("", "", t.label)] := by
  cases t with
  | node a cs =>
    have hd : descend (some k) 0 = false := by simp [descend]; omega
    simp only [rowsS, renderView_succ, hd]
    simp [addrs, addrsL, sub, prefixesAt_eq_pf, flagsAt_nil, pf_nil]

/-- an equal-width style -/
def EqualWidth (s : Style) (w : Nat) : Prop :=
  s.vertical.length = w ∧ s.cont.length = w ∧ s.end_.length = w

/-- for a node at depth `d`, `pre` and `fill` both have `d` segments of the style's width -/
theorem row_width (style : Style) (w : Nat) (hw : EqualWidth style w) (v : Tree α) (a : Addr) :
    (prefixesAt style v a).1.length = a.length * w ∧ (prefixesAt style v a).2.length = a.length * w := by
  obtain ⟨hv, hc, he⟩ := hw
  have := pf_length style w hv hc he (flagsAt v a)
  rw [length_flagsAt] at this
  exact this

/-- the four built-in styles (extracted from the source on every run) have equal widths -/
theorem builtin_styles_equal_width :
    ∀ e ∈ Generated.styles, e.2.1.length = e.2.2.1.length ∧ e.2.2.1.length = e.2.2.2.length ∧ 0 < e.2.1.length := by
  decide

/-- segment `j` of `fill` is the vertical bar iff the ancestor-or-self at depth `j+1` has a
following sibling, and the last segment of `pre` is the continue branch iff the node itself has -/
theorem flagsAt_spec (v : Tree α) (a : Addr) (j : Nat) (hj : j < a.length) :
    (flagsAt v a)[j]? = some (decide (a.getD j 0 + 1 < nkids v (a.take j))) := by
  simp [flagsAt, hj]

/-- **the shape of the rendered subtree can be reconstructed from the drawing alone**: the depths of
the rows (with an equal-width style: `fill.length / w`) determine the shape of the view -/
theorem decode_rows (v : Tree α) : treeOfDepths ((addrs v).map List.length) = some (shape v) := by
  cases v with
  | node a cs =>
    have h : forestOfDepths (((addrsL 0 cs).map List.length).length + 1) (0 + 1)
        ((addrsL 0 cs).map List.length) = (mapL (fun _ => ()) cs, []) := by
      have := forestOfDepths_addrsL cs 0 (((addrsL 0 cs).map List.length).length + 1) [] 0
        (by rw [List.length_map, length_addrsL]; omega) (by simp)
      simpa using this
    simp only [treeOfDepths, addrs, List.map_cons, List.length_nil, List.length_cons,
      forestOfDepths, if_true, h, shape, Tree.map]

/-- `str()`/`by_attr()`: `pre` + first line, `fill` + each further line; an empty value still
produces one line -/
theorem formatRow_spec (r : Row α) (lines : List String) :
    formatRow r lines =
      (r.pre ++ lines.headD "") :: lines.tail.map (fun x => r.fill ++ x) := by
  cases lines <;> rfl
theorem formatRow_nonempty (r : Row α) (lines : List String) : formatRow r lines ≠ [] := by
  cases lines <;> simp [formatRow]

-- non-vacuity
example : (rowsS (⟨"|  ", "|- ", "+- "⟩ : Style) id none
    (node 0 [node 1 [node 3 []], node 2 []] : Tree Nat)) =
    [("", "", 0), ("|- ", "|  ", 1), ("|  +- ", "|     ", 3), ("+- ", "   ", 2)] := by decide

end Anytree.Props.C09
