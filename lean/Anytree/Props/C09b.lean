import Anytree.Model.Render
/-!
# C09 — the `_repr` assembly of Node / AnyNode / SymlinkNode

`repr(node)` is `Class(args…, key=value, …)`: exactly the public, not black-listed instance attributes (black-listing is
by *exact* name), each once, sorted by name.  The values' own `repr` texts are CPython's and enter as strings.
-/
namespace Anytree.Props.C09b
open Anytree Render

/-- the text has the stated shape -/
theorem nodeRepr_shape (cls : String) (args bl : List String) (attrs : List (String × String)) :
    nodeRepr cls args bl attrs =
      cls ++ "(" ++ ", ".intercalate (args ++ (sortedShown bl attrs).map (fun e => e.1 ++ "=" ++ e.2)) ++ ")" := rfl

/-- exactly the public attributes whose name is not black-listed are shown -/
theorem mem_sortedShown (bl : List String) (attrs : List (String × String)) (e : String × String) :
    e ∈ sortedShown bl attrs ↔ e ∈ attrs ∧ e.1.startsWith "_" = false ∧ e.1 ∉ bl := by
  simp [sortedShown, shownAttrs, List.mem_mergeSort, List.mem_filter]

/-- … each exactly as often as it is stored (a rearrangement of the filtered attribute list) -/
theorem sortedShown_perm (bl : List String) (attrs : List (String × String)) :
    (sortedShown bl attrs).Perm (shownAttrs bl attrs) :=
  List.mergeSort_perm _ _

/-- … sorted by name -/
theorem sortedShown_sorted (bl : List String) (attrs : List (String × String)) :
    (sortedShown bl attrs).Pairwise (fun a b => a.1 ≤ b.1) := by
  have h := List.pairwise_mergeSort (le := fun (x y : String × String) => decide (x.1 ≤ y.1))
    (fun a b c hab hbc => by
      simp only [decide_eq_true_eq] at *
      exact String.le_trans hab hbc)
    (fun a b => by
      simp only [Bool.or_eq_true, decide_eq_true_eq]
      exact String.le_total a.1 b.1)
    (shownAttrs bl attrs)
  simpa [sortedShown] using h

/-- with distinct attribute names (a Python `dict`) the order is *determined*: any arrangement of the shown attributes
that is sorted by name is the one the model prints -/
theorem eq_of_key_eq : ∀ (attrs : List (String × String)), (attrs.map Prod.fst).Nodup →
    ∀ a b, a ∈ attrs → b ∈ attrs → a.1 = b.1 → a = b
  | [], _, _, _, ha, _, _ => by simp at ha
  | x :: xs, hk, a, b, ha, hb, hab => by
    simp only [List.map_cons, List.nodup_cons, List.mem_map, not_exists, not_and] at hk
    simp only [List.mem_cons] at ha hb
    rcases ha with rfl | ha <;> rcases hb with rfl | hb
    · rfl
    · exact absurd hab.symm (hk.1 b hb)
    · exact absurd hab (hk.1 a ha)
    · exact eq_of_key_eq xs hk.2 a b ha hb hab

theorem sortedShown_unique (bl : List String) (attrs : List (String × String))
    (hk : (attrs.map Prod.fst).Nodup) (l : List (String × String))
    (hp : l.Perm (shownAttrs bl attrs)) (hs : l.Pairwise (fun a b => a.1 ≤ b.1)) :
    l = sortedShown bl attrs := by
  refine List.Perm.eq_of_pairwise (le := fun a b => a.1 ≤ b.1) ?_ hs (sortedShown_sorted bl attrs)
    (hp.trans (sortedShown_perm bl attrs).symm)
  intro a b ha hb hab hba
  have ha' : a ∈ attrs := (List.mem_filter.mp (hp.subset ha)).1
  have hb' : b ∈ attrs := ((mem_sortedShown bl attrs b).mp hb).1
  exact eq_of_key_eq attrs hk a b ha' hb' (String.le_antisymm hab hba)

-- black-listing is by exact name: an attribute whose name merely *starts with* a black-listed name is shown
-- (evaluated at compile time, a test of the executable definition, not a theorem)
#guard nodeRepr "Node" ["'/r'"] ["name"] [("name", "'r'"), ("namespace", "'urn'"), ("_p", "1"), ("b", "2")]
    == "Node('/r', b=2, namespace='urn')"

end Anytree.Props.C09b
