import Anytree.Spec.Dict
namespace Anytree.Props.C10
end Anytree.Props.C10
