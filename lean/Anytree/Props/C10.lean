import Anytree.Spec.Dict
import Anytree.Lemmas.Dict
/-!
# C10 — dictionary export and import are faithful inverses of each other
-/
namespace Anytree.Props.C10
open Anytree Tree Dict Spec
open Anytree.Lemmas.Dict (toTree)
variable {V : Type}

/-- a key-unique association list is its own `dict(...)` -/
theorem dictOf_unique (l : Attrs V) (h : (l.map Prod.fst).Nodup) : dictOf l = l :=
  Lemmas.Dict.dictOf_unique l h

/-- clean public attributes pass `_iter_attr_values` and `dict()` unchanged -/
theorem clean_attrs_fixed (a : Attrs V) (h : CleanAttrs a) : dictOf (iterAttrValues a) = a :=
  Lemmas.Dict.clean_attrs_fixed a h

/-- `childiter` only returns children it was given -/
def Selects (childiter : List (Tree (Attrs V)) → List (Tree (Attrs V))) : Prop :=
  ∀ cs, ∀ x ∈ childiter cs, x ∈ cs

/-- **export = plain dictionary of the exported view**: `attriter` at every node, `childiter` at every
level, nodes at relative depth ≥ `maxlevel` cut, the start node always exported, `'children'` present
only when non-empty — for every fuel (the mirror's and the view's fuel are the same parameter) -/
theorem exportF_eq_plain_view (attriter : Attrs V → Attrs V)
    (childiter : List (Tree (Attrs V)) → List (Tree (Attrs V))) (m : Option Int)
    (hattr : ∀ a : Attrs V, ∀ e ∈ dictOf (attriter (iterAttrValues a)), e.1 ≠ "children") :
    ∀ (fuel : Nat) (level : Int) (t : Tree (Attrs V)),
      exportF attriter childiter m fuel level t = plainT (viewF attriter childiter m fuel level t) :=
  fun fuel level t =>
    Lemmas.Dict.exportF_eq_plain_view_of attriter childiter m (fun _ => True)
      (fun a _ _ => hattr a) (fun _ _ _ _ _ => trivial) fuel level t trivial

/-- the same with the "no `children` attribute" hypothesis restricted to a set `Q` of nodes that
contains the start node and is closed under `childiter` (e.g. `Q = CleanT` for `childiter = id`) -/
theorem exportF_eq_plain_view_of (attriter : Attrs V → Attrs V)
    (childiter : List (Tree (Attrs V)) → List (Tree (Attrs V))) (m : Option Int)
    (Q : Tree (Attrs V) → Prop)
    (hQa : ∀ a cs, Q (node a cs) → ∀ e ∈ dictOf (attriter (iterAttrValues a)), e.1 ≠ "children")
    (hQc : ∀ a cs, Q (node a cs) → ∀ c ∈ childiter cs, Q c) :
    ∀ (fuel : Nat) (level : Int) (t : Tree (Attrs V)), Q t →
      exportF attriter childiter m fuel level t = plainT (viewF attriter childiter m fuel level t) :=
  Lemmas.Dict.exportF_eq_plain_view_of attriter childiter m Q hQa hQc

/-- with the default options and enough fuel the exported view of a clean tree is the tree itself -/
theorem view_default (t : Tree (Attrs V)) (h : CleanT t) :
    ∀ fuel level, t.height < fuel → viewF id id none fuel level t = t :=
  Lemmas.Dict.view_default t h

/-- the start node is always exported, even for `maxlevel ≤ 1`; its children are cut then -/
theorem export_maxlevel_le_one (attriter : Attrs V → Attrs V)
    (childiter : List (Tree (Attrs V)) → List (Tree (Attrs V))) (k : Int) (hk : k ≤ 1)
    (t : Tree (Attrs V)) :
    exportD attriter childiter (some k) t = .mk (dictOf (attriter (iterAttrValues t.label))) none := by
  cases t with
  | node a cs =>
    have hd : decide ((1 : Int) < k) = false := by
      rw [decide_eq_false_iff_not]; omega
    simp [exportD, exportF, hd]

/-- the default export of a clean tree is its plain dictionary -/
theorem export_default (t : Tree (Attrs V)) (h : CleanT t) : exportD id id none t = plainT t :=
  Lemmas.Dict.exportD_default t h

/-- **import ∘ export = id** (AnyNode and every class that stores keywords in order): for a clean
tree, importing the default export rebuilds the same shape, child order and attributes -/
theorem import_export (t : Tree (Attrs V)) (h : CleanT t) :
    importT .anyNode (exportD id id none t) = some t := by
  rw [Lemmas.Dict.exportD_default t h]
  exact Lemmas.Dict.import_plain_anyNode t

/-- for `Node` the same holds when every node's `name` is stored last, as `Node.__init__` does -/
def NameLast (a : Attrs V) : Prop := ∃ v init, a = init ++ [("name", v)] ∧ ∀ e ∈ init, e.1 ≠ "name"
mutual
def NameLastT : Tree (Attrs V) → Prop
  | node a cs => NameLast a ∧ NameLastL cs
def NameLastL : List (Tree (Attrs V)) → Prop
  | [] => True
  | c :: cs => NameLastT c ∧ NameLastL cs
end
theorem import_export_node (t : Tree (Attrs V)) (h : CleanT t) (hn : NameLastT t) :
    importT .node (exportD id id none t) = some t := by
  rw [Lemmas.Dict.exportD_default t h]
  apply Lemmas.Dict.import_plain
  clear h
  induction t using Tree.rec
    (motive_2 := fun cs => NameLastL cs → ∀ a ∈ preL cs, ctorAttrs NodeCls.node a = some a) with
  | node a cs ih =>
    rw [NameLastT] at hn
    intro b hb
    rw [pre, List.mem_cons] at hb
    rcases hb with rfl | hb
    · exact Lemmas.Dict.ctorAttrs_node_nameLast _ hn.1
    · exact ih hn.2 b hb
  | nil => rename_i b hb; cases hb
  | cons c cs ihc ihcs =>
    rename_i hl b hb
    rw [NameLastL] at hl
    rw [preL, List.mem_append] at hb
    rcases hb with hb | hb
    · exact ihc hl.1 b hb
    · exact ihcs hl.2 b hb

/-- **export ∘ import = id up to empty `'children'` lists**, for every clean dictionary -/
theorem export_import (d : DData V) (h : CleanD d) :
    ∃ t, importT .anyNode d = some t ∧ exportD id id none t = stripEmptyT d :=
  ⟨toTree d, Lemmas.Dict.import_anyNode_eq d, by
    rw [Lemmas.Dict.exportD_default _ (Lemmas.Dict.clean_toTree d h), Lemmas.Dict.plain_toTree]⟩

/-- import never fails for AnyNode; for Node it fails (TypeError) exactly when some dictionary lacks `name` -/
theorem import_anyNode_total (d : DData V) : (importT .anyNode d).isSome = true := by
  rw [Lemmas.Dict.import_anyNode_eq]; rfl

/-- a dictionary without a `name` key makes `Node(**attrs)` fail (TypeError) -/
theorem import_node_missing_name (a : Attrs V) (ch : Option (List (DData V)))
    (h : ∀ e ∈ a, e.1 ≠ "name") : importT .node (.mk a ch) = none := by
  have hfind : a.find? (fun e => e.1 == "name") = none := by
    rw [List.find?_eq_none]
    intro e he
    simpa using h e he
  have hc : ctorAttrs NodeCls.node a = none := by simp only [ctorAttrs, hfind]
  rw [importT, hc]

end Anytree.Props.C10
