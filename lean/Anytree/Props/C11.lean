import Anytree.Spec.Dict
namespace Anytree.Props.C11
end Anytree.Props.C11
