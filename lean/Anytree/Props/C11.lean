import Anytree.Props.C10
/-!
# C11 — JSON export and import round-trip every JSON-representable tree

`JsonExporter`/`JsonImporter` are delegations; `dumps`/`loads` are parameters standing for CPython's
`json` module, about which the single assumption `loads (dumps d) = some d` is made.
-/
namespace Anytree.Props.C11
open Anytree Tree Dict Spec
variable {V J : Type}

/-- `export` is exactly `dumps` of what the dictionary exporter produces for that node and maxlevel;
the JSON exporter's own `maxlevel`, when given, replaces the dictionary exporter's -/
theorem json_export_eq (dumps : DData V → J) (attriter : Attrs V → Attrs V)
    (childiter : List (Tree (Attrs V)) → List (Tree (Attrs V))) (dm jm : Option Int) (t : Tree (Attrs V)) :
    jsonExport dumps attriter childiter dm jm t =
      dumps (exportD attriter childiter (match jm with | some k => some k | none => dm) t) := by
  cases jm <;> rfl

/-- JSON round trip: `import_(export(t))` rebuilds `t` (clean attribute dictionaries, default
options), assuming only that `loads` inverts `dumps` -/
theorem json_round_trip (dumps : DData V → J) (loads : J → Option (DData V))
    (hjson : ∀ d, loads (dumps d) = some d) (t : Tree (Attrs V)) (h : CleanT t) :
    jsonImport loads .anyNode (jsonExport dumps id id none none t) = some t := by
  simp only [jsonImport, jsonExport, hjson]
  exact C10.import_export t h

/-- with a `maxlevel` the re-imported tree is the exported view -/
theorem json_round_trip_view (dumps : DData V → J) (loads : J → Option (DData V))
    (hjson : ∀ d, loads (dumps d) = some d) (attriter : Attrs V → Attrs V)
    (childiter : List (Tree (Attrs V)) → List (Tree (Attrs V))) (dm jm : Option Int) (t : Tree (Attrs V)) :
    jsonImport loads .anyNode (jsonExport dumps attriter childiter dm jm t) =
      importT .anyNode (exportD attriter childiter (match jm with | some k => some k | none => dm) t) := by
  cases jm <;> simp only [jsonImport, jsonExport, hjson]

end Anytree.Props.C11
