import Anytree.Spec.Export
namespace Anytree.Props.C12
end Anytree.Props.C12
