import Anytree.Spec.Export
import Anytree.Props.C06
import Anytree.Lemmas.Export
/-!
# C12 — DOT export declares exactly the admitted nodes and only edges between them
(and the shared facts used by C13)
-/
namespace Anytree.Props.C12
open Anytree Tree Export Spec
variable {α κ : Type}

/-! ## structure of the emitted lines, for a pure naming function -/

/-- DotExporter with any pure name function (after the D2 fix): header, options, one node statement
per declared node in pre-order, the edge set of finding D3, closing brace; the id map is untouched -/
theorem dot_lines_pure (c : DotCfg α κ) (nm : Tree α → String) (t : Tree α) (st : IdMap κ) :
    dotIter false { c with nodename := NameFn.pure nm } t st = (Spec.dotLinesD3 c nm t, st) := by
  unfold dotIter
  simp only [dotNodes_pure, dotEdges_pure, C06.preIter_spec, edgeMax_false]
  simp only [dotLinesD3, declared, edgePairsNoStopRecheck, List.map_flatMap, List.map_map]
  rfl

/-- the emitted edge set differs from the demanded one exactly by children that satisfy `stop` -/
theorem edgePairs_eq_filter (F S : Tree α → Bool) (m : Option Int) (t : Tree α) :
    Spec.edgePairs F S m t = (Spec.edgePairsNoStopRecheck F S m t).filter (fun pc => !S pc.2) := by
  rw [edgePairs_struct, edgePairsNoStopRecheck, List.filter_flatMap]
  congr 1
  funext p
  rw [List.filter_map, List.filter_filter]
  congr 2
  funext c
  simp [Bool.and_comm]

/-- so without a `stop` function the DOT text is exactly what the property demands -/
theorem dot_lines_full (c : DotCfg α κ) (nm : Tree α → String) (t : Tree α) (st : IdMap κ)
    (hS : ∀ x, c.stop x = false) :
    (dotIter false { c with nodename := NameFn.pure nm } t st).1 = Spec.dotLinesS c nm t := by
  rw [dot_lines_pure]
  have h : Spec.edgePairs c.filter c.stop c.maxlevel t =
      Spec.edgePairsNoStopRecheck c.filter c.stop c.maxlevel t := by
    rw [edgePairs_eq_filter]
    simp [hS]
  simp only [dotLinesS, dotLinesD3, h]

/-- every edge starts at a declared node, and no demanded edge is missing -/
theorem edge_parents_declared (F S : Tree α → Bool) (m : Option Int) (t : Tree α) :
    ∀ pc ∈ Spec.edgePairsNoStopRecheck F S m t, pc.1 ∈ Spec.declared F S m t := by
  intro pc hpc
  simp only [edgePairsNoStopRecheck, List.mem_flatMap, List.mem_map] at hpc
  obtain ⟨p, hp, c, _, rfl⟩ := hpc
  exact preSpec_lower_subset F S m t p hp
theorem no_admitted_link_missing (F S : Tree α → Bool) (m : Option Int) (t : Tree α) :
    ∀ pc ∈ Spec.edgePairs F S m t, pc ∈ Spec.edgePairsNoStopRecheck F S m t := by
  intro pc hpc
  rw [edgePairs_eq_filter, List.mem_filter] at hpc
  exact hpc.1
/-- both ends of a demanded edge are declared -/
theorem edge_ends_declared (F S : Tree α → Bool) (m : Option Int) (t : Tree α) :
    ∀ pc ∈ Spec.edgePairs F S m t, pc.1 ∈ Spec.declared F S m t ∧ pc.2 ∈ Spec.declared F S m t := by
  intro pc hpc
  unfold edgePairs admittedNodes at hpc
  unfold declared preSpec
  cases hA : admitT S m t with
  | none => rw [hA] at hpc; simp at hpc
  | some A =>
    rw [hA] at hpc
    simp only [List.mem_flatMap] at hpc
    obtain ⟨P, hP, hpc⟩ := hpc
    by_cases hF : F P.label = true
    · simp only [hF, if_true, List.mem_map, List.mem_filter] at hpc
      obtain ⟨C, ⟨hC, hFC⟩, rfl⟩ := hpc
      have := mem_pre_decorate A P hP
      simp only [optPre, List.mem_filter]
      exact ⟨⟨this.1, hF⟩, ⟨this.2 C hC, hFC⟩⟩
    · simp [hF] at hpc

/-! ## escaping -/
theorem unesc_esc (cs : List Char) : Spec.unescChars (escChars cs) = cs := by
  induction cs with
  | nil => rfl
  | cons c cs ih =>
    by_cases h : c = '"' ∨ c = '\\'
    · simp only [escChars, h, if_true, unescChars, ih]
    · simp only [escChars, h, if_false]
      have hc : c ≠ '\\' := fun e => h (Or.inr e)
      rw [unescChars, ih]
      · intro c' cs' e _
        exact hc e
theorem esc_injective (a b : List Char) (h : escChars a = escChars b) : a = b := by
  rw [← unesc_esc a, h, unesc_esc]

/-! ## the id map: distinct and stable identifiers -/

/-- well-formed id map: numbers are `0 … size-1` in order of first use, keys pairwise distinct -/
def IdMap.WF [DecidableEq κ] (st : IdMap κ) : Prop :=
  st.map Prod.snd = List.range st.length ∧ (st.map Prod.fst).Nodup

theorem lookup_none [DecidableEq κ] (st : IdMap κ) (k : κ) (h : st.lookup k = none) :
    ∀ e ∈ st, e.1 ≠ k := by
  unfold IdMap.lookup at h
  rw [Option.map_eq_none_iff, List.find?_eq_none] at h
  intro e he
  simpa using h e he

theorem lookup_some [DecidableEq κ] (st : IdMap κ) (k : κ) (n : Nat) (h : st.lookup k = some n) :
    (k, n) ∈ st := by
  unfold IdMap.lookup at h
  rw [Option.map_eq_some_iff] at h
  obtain ⟨e, he, rfl⟩ := h
  have h1 := List.mem_of_find?_eq_some he
  have h2 := List.find?_some he
  simp only [decide_eq_true_eq] at h2
  subst h2
  exact h1

theorem get_none [DecidableEq κ] (st : IdMap κ) (k : κ) (h : st.lookup k = none) :
    st.get k = (st.length, st ++ [(k, st.length)]) := by
  unfold IdMap.get; rw [h]

theorem get_some [DecidableEq κ] (st : IdMap κ) (k : κ) (n : Nat) (h : st.lookup k = some n) :
    st.get k = (n, st) := by
  unfold IdMap.get; rw [h]

theorem get_wf [DecidableEq κ] (st : IdMap κ) (k : κ) (h : IdMap.WF st) : IdMap.WF (st.get k).2 := by
  cases hl : st.lookup k with
  | some n => rw [get_some st k n hl]; exact h
  | none =>
    rw [get_none st k hl]
    obtain ⟨h1, h2⟩ := h
    constructor
    · simp only [List.map_append, List.map_cons, List.map_nil, List.length_append, List.length_cons,
        List.length_nil, Nat.zero_add, List.range_succ, h1]
    · simp only [List.map_append, List.map_cons, List.map_nil]
      rw [List.nodup_append]
      refine ⟨h2, by simp, ?_⟩
      intro a ha b hb
      simp only [List.mem_singleton] at hb
      subst hb
      rw [List.mem_map] at ha
      obtain ⟨e, he, rfl⟩ := ha
      exact lookup_none st b hl e he
/-- a number once given is kept for ever -/
theorem get_stable [DecidableEq κ] (st : IdMap κ) (k k' : κ) (n : Nat) (h : st.lookup k' = some n) :
    (st.get k).2.lookup k' = some n := by
  cases hl : st.lookup k with
  | some n' => rw [get_some st k n' hl]; exact h
  | none =>
    rw [get_none st k hl]
    unfold IdMap.lookup at h ⊢
    rw [List.find?_append]
    cases hf : List.find? (fun e => decide (e.1 = k')) st with
    | none => rw [hf] at h; simp at h
    | some e => rw [hf] at h; simpa using h
theorem get_lookup [DecidableEq κ] (st : IdMap κ) (k : κ) :
    (st.get k).2.lookup k = some (st.get k).1 := by
  cases hl : st.lookup k with
  | some n' => rw [get_some st k n' hl]; exact hl
  | none =>
    rw [get_none st k hl]
    have hf : List.find? (fun e => decide (e.1 = k)) st = none := by
      unfold IdMap.lookup at hl
      simpa using hl
    unfold IdMap.lookup
    rw [List.find?_append, hf]
    simp
/-- distinct nodes get distinct numbers -/
theorem lookup_injective [DecidableEq κ] (st : IdMap κ) (h : IdMap.WF st) (k k' : κ) (n : Nat)
    (h1 : st.lookup k = some n) (h2 : st.lookup k' = some n) : k = k' := by
  have key : ∀ (l : List (κ × Nat)), (l.map Prod.snd).Nodup → ∀ e ∈ l, ∀ e' ∈ l, e.2 = e'.2 → e = e' := by
    intro l
    induction l with
    | nil => intro _ e he; simp at he
    | cons x xs ih =>
      intro hnd e he e' he' hee
      simp only [List.map_cons, List.nodup_cons, List.mem_map, not_exists, not_and] at hnd
      simp only [List.mem_cons] at he he'
      rcases he with rfl | he <;> rcases he' with rfl | he'
      · rfl
      · exact absurd hee.symm (hnd.1 e' he')
      · exact absurd hee (hnd.1 e he)
      · exact ih hnd.2 e he e' he' hee
  have hnd : (st.map Prod.snd).Nodup := by rw [h.1]; exact List.nodup_range
  have := key st hnd (k, n) (lookup_some st k n h1) (k', n) (lookup_some st k' n h2) rfl
  exact (Prod.mk.inj this).1

/-- the identifier of a node read off an id map -/
def finalHex [DecidableEq κ] (st : IdMap κ) (key : Tree α → κ) : Tree α → String :=
  fun n => pyHex ((st.lookup (key n)).getD 0)
def finalN [DecidableEq κ] (st : IdMap κ) (key : Tree α → κ) : Tree α → String :=
  fun n => "N" ++ toString ((st.lookup (key n)).getD 0)

/-! ### the generic counter-based naming -/

/-- `st'` knows every identifier of `st` -/
def Extends [DecidableEq κ] (st st' : IdMap κ) : Prop :=
  ∀ k n, st.lookup k = some n → st'.lookup k = some n

theorem Extends.refl [DecidableEq κ] (st : IdMap κ) : Extends st st := fun _ _ h => h
theorem Extends.trans [DecidableEq κ] {a b c : IdMap κ} (h1 : Extends a b) (h2 : Extends b c) :
    Extends a c := fun k n h => h2 k n (h1 k n h)

/-- first-use counter naming with an arbitrary number format (`pyHex` / `"N" ++ toString`) -/
def ctrName [DecidableEq κ] (fmt : Nat → String) (key : Tree α → κ) : NameFn α κ := fun st n =>
  let r := st.get (key n); (fmt r.1, r.2)

def finalName [DecidableEq κ] (fmt : Nat → String) (st : IdMap κ) (key : Tree α → κ) :
    Tree α → String :=
  fun n => fmt ((st.lookup (key n)).getD 0)

theorem uniqueName_eq [DecidableEq κ] (key : Tree α → κ) : uniqueName key = ctrName pyHex key := rfl
theorem mermaidName_eq [DecidableEq κ] (key : Tree α → κ) :
    mermaidName key = ctrName (fun n => "N" ++ toString n) key := rfl

/-- what a threaded pass `f` must satisfy to be replaceable by the pure pass `g` reading the names
off any later map -/
def Pass [DecidableEq κ] (fmt : Nat → String) (key : Tree α → κ)
    (f : IdMap κ → List String × IdMap κ) (g : (Tree α → String) → List String) : Prop :=
  ∀ st, Extends st (f st).2 ∧ (IdMap.WF st → IdMap.WF (f st).2) ∧
    ∀ st', Extends (f st).2 st' → (f st).1 = g (finalName fmt st' key)

theorem ctrName_step [DecidableEq κ] (fmt : Nat → String) (key : Tree α → κ) (st : IdMap κ)
    (n : Tree α) :
    Extends st (ctrName fmt key st n).2 ∧ (IdMap.WF st → IdMap.WF (ctrName fmt key st n).2) ∧
    ∀ st', Extends (ctrName fmt key st n).2 st' →
      (ctrName fmt key st n).1 = finalName fmt st' key n := by
  refine ⟨fun k m h => get_stable st (key n) k m h, fun h => get_wf st (key n) h, ?_⟩
  intro st' hst'
  have := hst' _ _ (get_lookup st (key n))
  simp only [finalName, this, Option.getD_some]
  rfl

/-- sequencing: a name lookup followed by a pass that may use the name -/
theorem Pass.bind [DecidableEq κ] (fmt : Nat → String) (key : Tree α → κ) (n : Tree α)
    (f : String → IdMap κ → List String × IdMap κ) (g : (Tree α → String) → List String)
    (h : ∀ pn st, Extends st (f pn st).2 ∧ (IdMap.WF st → IdMap.WF (f pn st).2) ∧
      ∀ st', Extends (f pn st).2 st' → pn = finalName fmt st' key n →
        (f pn st).1 = g (finalName fmt st' key)) :
    Pass fmt key (fun st => f (ctrName fmt key st n).1 (ctrName fmt key st n).2) g := by
  intro st
  obtain ⟨e1, w1, f1⟩ := ctrName_step fmt key st n
  obtain ⟨e2, w2, f2⟩ := h (ctrName fmt key st n).1 (ctrName fmt key st n).2
  refine ⟨e1.trans e2, fun hw => w2 (w1 hw), fun st' hst' => ?_⟩
  exact f2 st' hst' (f1 st' (e2.trans hst'))

/-- sequencing of two passes -/
theorem Pass.append [DecidableEq κ] (fmt : Nat → String) (key : Tree α → κ)
    (f1 f2 : IdMap κ → List String × IdMap κ) (g1 g2 : (Tree α → String) → List String)
    (h1 : Pass fmt key f1 g1) (h2 : Pass fmt key f2 g2) :
    Pass fmt key (fun st => ((f1 st).1 ++ (f2 (f1 st).2).1, (f2 (f1 st).2).2))
      (fun nm => g1 nm ++ g2 nm) := by
  intro st
  obtain ⟨e1, w1, p1⟩ := h1 st
  obtain ⟨e2, w2, p2⟩ := h2 (f1 st).2
  refine ⟨e1.trans e2, fun hw => w2 (w1 hw), fun st' hst' => ?_⟩
  show (f1 st).1 ++ (f2 (f1 st).2).1 = _
  rw [p1 st' (e2.trans hst'), p2 st' hst']

theorem Pass.nil [DecidableEq κ] (fmt : Nat → String) (key : Tree α → κ) :
    Pass fmt key (fun st => (([] : List String), st)) (fun _ => []) :=
  fun st => ⟨Extends.refl st, id, fun _ _ => rfl⟩

theorem Pass.congr [DecidableEq κ] (fmt : Nat → String) (key : Tree α → κ)
    {f f' : IdMap κ → List String × IdMap κ} {g g' : (Tree α → String) → List String}
    (h : Pass fmt key f g) (hf : ∀ st, f' st = f st) (hg : ∀ nm, g' nm = g nm) :
    Pass fmt key f' g' := by
  have e1 : f' = f := funext hf
  have e2 : g' = g := funext hg
  rw [e1, e2]; exact h

/-! ### the DOT passes -/

theorem dotNodes_pass [DecidableEq κ] (fmt : Nat → String) (key : Tree α → κ) (c : DotCfg α κ)
    (hc : c.nodename = ctrName fmt key) (ind : String) (ns : List (Tree α)) :
    Pass fmt key (dotNodes c ind ns) (fun nm => ns.map (dotNodeLine ind nm c.nodeattr)) := by
  induction ns with
  | nil => exact Pass.nil fmt key
  | cons n ns ih =>
    have hb := Pass.bind fmt key n
      (fun pn st => ((ind ++ "\"" ++ esc pn ++ "\"" ++ optAttr (c.nodeattr n) ++ ";") ::
        (dotNodes c ind ns st).1, (dotNodes c ind ns st).2))
      (fun nm => dotNodeLine ind nm c.nodeattr n :: ns.map (dotNodeLine ind nm c.nodeattr))
      (by
        intro pn st
        obtain ⟨e, w, f⟩ := ih st
        refine ⟨e, w, fun st' hst' hpn => ?_⟩
        show _ :: (dotNodes c ind ns st).1 = _
        rw [f st' hst', hpn]; rfl)
    refine hb.congr fmt key (fun st => ?_) (fun nm => rfl)
    rw [dotNodes_cons, hc]

theorem dotEdgesOf_pass [DecidableEq κ] (fmt : Nat → String) (key : Tree α → κ) (c : DotCfg α κ)
    (hc : c.nodename = ctrName fmt key) (ind : String) (p : Tree α) (R : Tree α → Bool)
    (chs : List (Tree α)) :
    ∀ pn st, Extends st (dotEdgesOf c ind pn p R chs st).2 ∧
      (IdMap.WF st → IdMap.WF (dotEdgesOf c ind pn p R chs st).2) ∧
      ∀ st', Extends (dotEdgesOf c ind pn p R chs st).2 st' → pn = finalName fmt st' key p →
        (dotEdgesOf c ind pn p R chs st).1 =
          (chs.filter R).map (fun ch => dotEdgeLine ind (finalName fmt st' key) c.edgetype c.edgeattr (p, ch)) := by
  induction chs with
  | nil => intro pn st; exact ⟨Extends.refl st, id, fun _ _ _ => rfl⟩
  | cons ch chs ih =>
    intro pn st
    cases h : R ch with
    | false =>
      rw [dotEdgesOf_cons_skip _ _ _ _ _ _ _ _ h]
      simp only [List.filter_cons, h, Bool.false_eq_true, if_false]
      exact ih pn st
    | true =>
      rw [dotEdgesOf_cons_keep _ _ _ _ _ _ _ _ h, hc]
      simp only [List.filter_cons, h, if_true, List.map_cons]
      obtain ⟨e1, w1, f1⟩ := ctrName_step fmt key st ch
      obtain ⟨e2, w2, f2⟩ := ih pn (ctrName fmt key st ch).2
      refine ⟨e1.trans e2, fun hw => w2 (w1 hw), fun st' hst' hpn => ?_⟩
      show _ :: (dotEdgesOf c ind pn p R chs (ctrName fmt key st ch).2).1 = _
      rw [f2 st' hst' hpn, f1 st' (e2.trans hst'), hpn]; rfl

theorem dotEdges_pass [DecidableEq κ] (fmt : Nat → String) (key : Tree α → κ) (c : DotCfg α κ)
    (hc : c.nodename = ctrName fmt key) (ind : String) (ps : List (Tree α)) :
    Pass fmt key (dotEdges c ind ps) (fun nm => ps.flatMap (fun p => (p.kids.filter c.filter).map
        (fun ch => dotEdgeLine ind nm c.edgetype c.edgeattr (p, ch)))) := by
  induction ps with
  | nil => exact Pass.nil fmt key
  | cons p ps ih =>
    have hb := Pass.bind fmt key p
      (fun pn st => ((dotEdgesOf c ind pn p c.filter p.kids st).1 ++
          (dotEdges c ind ps (dotEdgesOf c ind pn p c.filter p.kids st).2).1,
        (dotEdges c ind ps (dotEdgesOf c ind pn p c.filter p.kids st).2).2))
      (fun nm => (p.kids.filter c.filter).map
          (fun ch => dotEdgeLine ind nm c.edgetype c.edgeattr (p, ch)) ++
        ps.flatMap (fun p => (p.kids.filter c.filter).map
          (fun ch => dotEdgeLine ind nm c.edgetype c.edgeattr (p, ch))))
      (by
        intro pn st
        obtain ⟨e1, w1, f1⟩ := dotEdgesOf_pass fmt key c hc ind p c.filter p.kids pn st
        obtain ⟨e2, w2, f2⟩ := ih (dotEdgesOf c ind pn p c.filter p.kids st).2
        refine ⟨e1.trans e2, fun hw => w2 (w1 hw), fun st' hst' hpn => ?_⟩
        show (dotEdgesOf c ind pn p c.filter p.kids st).1 ++ _ = _
        rw [f1 st' (e2.trans hst') hpn, f2 st' hst'])
    refine hb.congr fmt key (fun st => ?_) (fun nm => ?_)
    · rw [dotEdges_cons, hc]
    · rw [List.flatMap_cons]

theorem dotIter_eq (legacy : Bool) (c : DotCfg α κ) (t : Tree α) (st : IdMap κ) :
    dotIter legacy c t st =
      ([c.graph ++ " " ++ c.name ++ " {"] ++ c.options.map (fun o => spaces c.indent ++ o) ++
        (dotNodes c (spaces c.indent) (Iter.preIter c.filter c.stop c.maxlevel t) st).1 ++
        (dotEdges c (spaces c.indent) (Iter.preIter c.filter c.stop (edgeMax legacy c.maxlevel) t)
          (dotNodes c (spaces c.indent) (Iter.preIter c.filter c.stop c.maxlevel t) st).2).1 ++ ["}"],
       (dotEdges c (spaces c.indent) (Iter.preIter c.filter c.stop (edgeMax legacy c.maxlevel) t)
          (dotNodes c (spaces c.indent) (Iter.preIter c.filter c.stop c.maxlevel t) st).2).2) := rfl

/-- the whole DOT iteration with a counter-based naming -/
theorem dot_ctr_eq_pure [DecidableEq κ] (fmt : Nat → String) (c : DotCfg α κ) (key : Tree α → κ)
    (t : Tree α) (st : IdMap κ) :
    let r := dotIter false { c with nodename := ctrName fmt key } t st
    r.1 = (dotIter false { c with nodename := NameFn.pure (finalName fmt r.2 key) } t st).1 ∧
    Extends st r.2 ∧ (IdMap.WF st → IdMap.WF r.2) := by
  intro r
  have hN := dotNodes_pass fmt key { c with nodename := ctrName fmt key } rfl (spaces c.indent)
    (Iter.preIter c.filter c.stop c.maxlevel t)
  have hE := dotEdges_pass fmt key { c with nodename := ctrName fmt key } rfl (spaces c.indent)
    (Iter.preIter c.filter c.stop (edgeMax false c.maxlevel) t)
  have hA := (Pass.append fmt key _ _ _ _ hN hE) st
  obtain ⟨e, w, f⟩ := hA
  refine ⟨?_, e, w⟩
  have hf := f r.2 (Extends.refl _)
  rw [dot_lines_pure]
  show r.1 = dotLinesD3 c (finalName fmt r.2 key) t
  have hr : r.1 = [c.graph ++ " " ++ c.name ++ " {"] ++ c.options.map (fun o => spaces c.indent ++ o) ++
      ((dotNodes { c with nodename := ctrName fmt key } (spaces c.indent)
          (Iter.preIter c.filter c.stop c.maxlevel t) st).1 ++
        (dotEdges { c with nodename := ctrName fmt key } (spaces c.indent)
          (Iter.preIter c.filter c.stop (edgeMax false c.maxlevel) t)
          (dotNodes { c with nodename := ctrName fmt key } (spaces c.indent)
            (Iter.preIter c.filter c.stop c.maxlevel t) st).2).1) ++ ["}"] := by
    show (dotIter false { c with nodename := ctrName fmt key } t st).1 = _
    rw [dotIter_eq]
    simp only [List.append_assoc]
  rw [hr]
  have hf' : (dotNodes { c with nodename := ctrName fmt key } (spaces c.indent)
          (Iter.preIter c.filter c.stop c.maxlevel t) st).1 ++
        (dotEdges { c with nodename := ctrName fmt key } (spaces c.indent)
          (Iter.preIter c.filter c.stop (edgeMax false c.maxlevel) t)
          (dotNodes { c with nodename := ctrName fmt key } (spaces c.indent)
            (Iter.preIter c.filter c.stop c.maxlevel t) st).2).1 = _ := hf
  rw [hf']
  simp only [dotLinesD3, declared, edgePairsNoStopRecheck, List.map_flatMap, List.map_map,
    C06.preIter_spec, edgeMax_false, List.append_assoc]
  rfl

/-- UniqueDotExporter's first-use counter is unobservable apart from the names it produces: one
iteration with the stateful default naming emits the same lines as the pure naming that reads every
identifier off the *final* map, and the map only grows (so a later iteration reuses every id) -/
theorem dot_unique_eq_pure [DecidableEq κ] (c : DotCfg α κ) (key : Tree α → κ) (t : Tree α)
    (st : IdMap κ) :
    let r := dotIter false { c with nodename := uniqueName key } t st
    r.1 = (dotIter false { c with nodename := NameFn.pure (finalHex r.2 key) } t st).1 ∧
    (∀ k n, st.lookup k = some n → r.2.lookup k = some n) ∧
    (IdMap.WF st → IdMap.WF r.2) :=
  dot_ctr_eq_pure pyHex c key t st

/-! ## finding D2 (repaired): the old edge-pass limit -/
theorem edgeMax_legacy_eq (m : Option Int) (h : m ≠ some 0) : edgeMax true m = edgeMax false m := by
  cases m with
  | none => rfl
  | some k =>
    have hk : k ≠ 0 := fun e => h (by rw [e])
    simp [edgeMax, Iter.decMax, hk]
theorem edgeMax_legacy_zero : edgeMax true (some 0) = none ∧ edgeMax false (some 0) = some (-1) := by
  constructor <;> rfl

end Anytree.Props.C12
