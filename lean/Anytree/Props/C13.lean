import Anytree.Spec.Export
namespace Anytree.Props.C13
end Anytree.Props.C13
