import Anytree.Props.C12
/-!
# C13 — Mermaid export declares exactly the admitted nodes and only edges between them
-/
namespace Anytree.Props.C13
open Anytree Tree Export Spec
variable {α κ : Type}

/-- MermaidExporter with any pure name function (after the D2 fix) emits exactly the demanded text:
header, options, one node line per declared node in pre-order, one edge line per parent–child pair
whose two ends are both declared; the id map is untouched -/
theorem mermaid_lines_pure (c : MermaidCfg α κ) (nm : Tree α → String) (t : Tree α) (st : IdMap κ) :
    merIter false { c with nodename := NameFn.pure nm } t st = (Spec.merLinesS c nm t, st) := by
  unfold merIter
  simp only [merNodes_pure, merEdges_pure, C06.preIter_spec, edgeMax_false]
  simp only [merLinesS, declared, edgePairs_struct, List.map_flatMap, List.map_map]
  rfl

open C12 in
theorem merNodes_pass [DecidableEq κ] (fmt : Nat → String) (key : Tree α → κ) (c : MermaidCfg α κ)
    (hc : c.nodename = ctrName fmt key) (ind : String) (ns : List (Tree α)) :
    Pass fmt key (merNodes c ind ns) (fun nm => ns.map (merNodeLine ind nm c.nodefunc)) := by
  induction ns with
  | nil => exact Pass.nil fmt key
  | cons n ns ih =>
    have hb := Pass.bind fmt key n
      (fun pn st => ((ind ++ pn ++ c.nodefunc n) ::
        (merNodes c ind ns st).1, (merNodes c ind ns st).2))
      (fun nm => merNodeLine ind nm c.nodefunc n :: ns.map (merNodeLine ind nm c.nodefunc))
      (by
        intro pn st
        obtain ⟨e, w, f⟩ := ih st
        refine ⟨e, w, fun st' hst' hpn => ?_⟩
        show _ :: (merNodes c ind ns st).1 = _
        rw [f st' hst', hpn]; rfl)
    refine hb.congr fmt key (fun st => ?_) (fun nm => rfl)
    rw [merNodes_cons, hc]

open C12 in
theorem merEdgesOf_pass [DecidableEq κ] (fmt : Nat → String) (key : Tree α → κ) (c : MermaidCfg α κ)
    (hc : c.nodename = ctrName fmt key) (ind : String) (p : Tree α) (chs : List (Tree α)) :
    ∀ pn st, Extends st (merEdgesOf c ind pn p chs st).2 ∧
      (IdMap.WF st → IdMap.WF (merEdgesOf c ind pn p chs st).2) ∧
      ∀ st', Extends (merEdgesOf c ind pn p chs st).2 st' → pn = finalName fmt st' key p →
        (merEdgesOf c ind pn p chs st).1 =
          (chs.filter (fun ch => c.filter ch && !c.stop ch)).map
            (fun ch => merEdgeLine ind (finalName fmt st' key) c.edgefunc (p, ch)) := by
  induction chs with
  | nil => intro pn st; exact ⟨Extends.refl st, id, fun _ _ _ => rfl⟩
  | cons ch chs ih =>
    intro pn st
    cases h : (c.filter ch && !c.stop ch) with
    | false =>
      rw [merEdgesOf_cons_skip c _ _ _ _ _ _ h]
      simp only [List.filter_cons, h, Bool.false_eq_true, if_false]
      exact ih pn st
    | true =>
      rw [merEdgesOf_cons_keep c _ _ _ _ _ _ h, hc]
      simp only [List.filter_cons, h, if_true, List.map_cons]
      obtain ⟨e1, w1, f1⟩ := ctrName_step fmt key st ch
      obtain ⟨e2, w2, f2⟩ := ih pn (ctrName fmt key st ch).2
      refine ⟨e1.trans e2, fun hw => w2 (w1 hw), fun st' hst' hpn => ?_⟩
      show _ :: (merEdgesOf c ind pn p chs (ctrName fmt key st ch).2).1 = _
      rw [f2 st' hst' hpn, f1 st' (e2.trans hst'), hpn]; rfl

open C12 in
theorem merEdges_pass [DecidableEq κ] (fmt : Nat → String) (key : Tree α → κ) (c : MermaidCfg α κ)
    (hc : c.nodename = ctrName fmt key) (ind : String) (ps : List (Tree α)) :
    Pass fmt key (merEdges c ind ps) (fun nm => ps.flatMap (fun p =>
      (p.kids.filter (fun ch => c.filter ch && !c.stop ch)).map
        (fun ch => merEdgeLine ind nm c.edgefunc (p, ch)))) := by
  induction ps with
  | nil => exact Pass.nil fmt key
  | cons p ps ih =>
    have hb := Pass.bind fmt key p
      (fun pn st => ((merEdgesOf c ind pn p p.kids st).1 ++
          (merEdges c ind ps (merEdgesOf c ind pn p p.kids st).2).1,
        (merEdges c ind ps (merEdgesOf c ind pn p p.kids st).2).2))
      (fun nm => (p.kids.filter (fun ch => c.filter ch && !c.stop ch)).map
          (fun ch => merEdgeLine ind nm c.edgefunc (p, ch)) ++
        ps.flatMap (fun p => (p.kids.filter (fun ch => c.filter ch && !c.stop ch)).map
          (fun ch => merEdgeLine ind nm c.edgefunc (p, ch))))
      (by
        intro pn st
        obtain ⟨e1, w1, f1⟩ := merEdgesOf_pass fmt key c hc ind p p.kids pn st
        obtain ⟨e2, w2, f2⟩ := ih (merEdgesOf c ind pn p p.kids st).2
        refine ⟨e1.trans e2, fun hw => w2 (w1 hw), fun st' hst' hpn => ?_⟩
        show (merEdgesOf c ind pn p p.kids st).1 ++ _ = _
        rw [f1 st' (e2.trans hst') hpn, f2 st' hst'])
    refine hb.congr fmt key (fun st => ?_) (fun nm => ?_)
    · rw [merEdges_cons, hc]
    · rw [List.flatMap_cons]

theorem merIter_eq (legacy : Bool) (c : MermaidCfg α κ) (t : Tree α) (st : IdMap κ) :
    merIter legacy c t st =
      ([c.graph ++ " " ++ c.name] ++ c.options.map (fun o => spaces c.indent ++ o) ++
        (merNodes c (spaces c.indent) (Iter.preIter c.filter c.stop c.maxlevel t) st).1 ++
        (merEdges c (spaces c.indent) (Iter.preIter c.filter c.stop (edgeMax legacy c.maxlevel) t)
          (merNodes c (spaces c.indent) (Iter.preIter c.filter c.stop c.maxlevel t) st).2).1,
       (merEdges c (spaces c.indent) (Iter.preIter c.filter c.stop (edgeMax legacy c.maxlevel) t)
          (merNodes c (spaces c.indent) (Iter.preIter c.filter c.stop c.maxlevel t) st).2).2) := rfl

open C12 in
/-- the whole Mermaid iteration with a counter-based naming -/
theorem mermaid_ctr_eq_pure [DecidableEq κ] (fmt : Nat → String) (c : MermaidCfg α κ)
    (key : Tree α → κ) (t : Tree α) (st : IdMap κ) :
    let r := merIter false { c with nodename := ctrName fmt key } t st
    r.1 = (merIter false { c with nodename := NameFn.pure (finalName fmt r.2 key) } t st).1 ∧
    Extends st r.2 ∧ (IdMap.WF st → IdMap.WF r.2) := by
  intro r
  have hN := merNodes_pass fmt key { c with nodename := ctrName fmt key } rfl (spaces c.indent)
    (Iter.preIter c.filter c.stop c.maxlevel t)
  have hE := merEdges_pass fmt key { c with nodename := ctrName fmt key } rfl (spaces c.indent)
    (Iter.preIter c.filter c.stop (edgeMax false c.maxlevel) t)
  have hA := (Pass.append fmt key _ _ _ _ hN hE) st
  obtain ⟨e, w, f⟩ := hA
  refine ⟨?_, e, w⟩
  have hf := f r.2 (Extends.refl _)
  rw [mermaid_lines_pure]
  show r.1 = merLinesS c (finalName fmt r.2 key) t
  have hr : r.1 = [c.graph ++ " " ++ c.name] ++ c.options.map (fun o => spaces c.indent ++ o) ++
      ((merNodes { c with nodename := ctrName fmt key } (spaces c.indent)
          (Iter.preIter c.filter c.stop c.maxlevel t) st).1 ++
        (merEdges { c with nodename := ctrName fmt key } (spaces c.indent)
          (Iter.preIter c.filter c.stop (edgeMax false c.maxlevel) t)
          (merNodes { c with nodename := ctrName fmt key } (spaces c.indent)
            (Iter.preIter c.filter c.stop c.maxlevel t) st).2).1) := by
    show (merIter false { c with nodename := ctrName fmt key } t st).1 = _
    rw [merIter_eq]
    simp only [List.append_assoc]
  rw [hr]
  have hf' : (merNodes { c with nodename := ctrName fmt key } (spaces c.indent)
          (Iter.preIter c.filter c.stop c.maxlevel t) st).1 ++
        (merEdges { c with nodename := ctrName fmt key } (spaces c.indent)
          (Iter.preIter c.filter c.stop (edgeMax false c.maxlevel) t)
          (merNodes { c with nodename := ctrName fmt key } (spaces c.indent)
            (Iter.preIter c.filter c.stop c.maxlevel t) st).2).1 = _ := hf
  rw [hf']
  simp only [merLinesS, declared, edgePairs_struct, List.map_flatMap, List.map_map,
    C06.preIter_spec, edgeMax_false, List.append_assoc]
  rfl

/-- the default `N<k>` identifiers: same lines as the pure naming read off the final map; the map
only grows and stays well-formed (distinct nodes ↦ distinct ids, stable across iterations) -/
theorem mermaid_default_eq_pure [DecidableEq κ] (c : MermaidCfg α κ) (key : Tree α → κ) (t : Tree α)
    (st : IdMap κ) :
    let r := merIter false { c with nodename := mermaidName key } t st
    r.1 = (merIter false { c with nodename := NameFn.pure (C12.finalN r.2 key) } t st).1 ∧
    (∀ k n, st.lookup k = some n → r.2.lookup k = some n) ∧
    (C12.IdMap.WF st → C12.IdMap.WF r.2) :=
  mermaid_ctr_eq_pure (fun n => "N" ++ toString n) c key t st

def d2Tree : Tree Nat := node 0 [node 1 [], node 2 []]
def d2Cfg : MermaidCfg Nat Nat :=
  { graph := "graph", name := "TD", options := [], indent := 0,
    nodename := NameFn.pure (fun n => "n" ++ toString n.label), nodefunc := fun _ => "",
    edgefunc := fun _ _ => "-->", filter := fun _ => true, stop := fun _ => false,
    maxlevel := some 0 }

/-- before the repair of D2 the exporter with `maxlevel = 0` emitted every edge (kernel-checked witness) -/
theorem D2_witness :
    (merIter true d2Cfg d2Tree []).1 = ["graph TD", "n0-->n1", "n0-->n2"] ∧
    (merIter false d2Cfg d2Tree []).1 = ["graph TD"] := by
  decide

end Anytree.Props.C13
