import Anytree.Props.C12
import Anytree.Props.C13
/-!
# C12/C13 — the default identifiers are *distinct per node* and cover every node mentioned

`dot_unique_eq_pure` / `mermaid_default_eq_pure` show that the stateful default naming emits the same
lines as the pure naming read off the final id map, that the map only grows and stays well-formed.
What is still missing for "default identifiers are distinct per node": every node that is named in the
output really has an entry in the final map (so its printed name is `fmt` of a real, first-use counter
value and not the `getD 0` default), and the printed names of two nodes with different keys differ.
-/
namespace Anytree.Props.C13b
open Anytree Tree Export Spec Anytree.Props.C12 Anytree.Props.C13
variable {α κ : Type}

/-! ## injectivity of the two number formats -/

theorem toDigits10_injective (a b : Nat) (h : Nat.toDigits 10 a = Nat.toDigits 10 b) : a = b := by
  rw [← Nat.ofDigitChars_ten_toDigits (n := a), h, Nat.ofDigitChars_ten_toDigits]

theorem digitChar_inj16 : ∀ a < 16, ∀ b < 16, Nat.digitChar a = Nat.digitChar b → a = b := by
  decide

theorem toDigits16_injective : ∀ a b : Nat, Nat.toDigits 16 a = Nat.toDigits 16 b → a = b := by
  intro a
  induction a using Nat.strongRecOn with
  | ind a ih =>
    intro b h
    rw [Nat.toDigits_eq_if (b := 16) (n := a) (by decide),
      Nat.toDigits_eq_if (b := 16) (n := b) (by decide)] at h
    by_cases ha : a < 16 <;> by_cases hb : b < 16
    · simp only [ha, hb, if_true, List.cons.injEq, and_true] at h
      exact digitChar_inj16 a ha b hb h
    · simp only [ha, hb, if_true, if_false] at h
      have h1 := congrArg List.length h
      simp only [List.length_cons, List.length_nil, List.length_append] at h1
      have := Nat.length_toDigits_pos (b := 16) (n := b / 16)
      omega
    · simp only [ha, hb, if_true, if_false] at h
      have h1 := congrArg List.length h
      simp only [List.length_cons, List.length_nil, List.length_append] at h1
      have := Nat.length_toDigits_pos (b := 16) (n := a / 16)
      omega
    · simp only [ha, hb, if_false] at h
      have h1 := List.append_inj' h rfl
      have e1 := ih (a / 16) (by omega) (b / 16) h1.1
      have e2 := digitChar_inj16 (a % 16) (by omega) (b % 16) (by omega) (by simpa using h1.2)
      omega

/-- `"N" ++ toString n` is injective -/
theorem mermaidFmt_injective (a b : Nat) (h : "N" ++ toString a = "N" ++ toString b) : a = b := by
  rw [String.append_right_inj, Nat.toString_eq_ofList_toDigits, Nat.toString_eq_ofList_toDigits,
    String.ofList_inj] at h
  exact toDigits10_injective a b h

/-- Python's `hex` is injective -/
theorem pyHex_injective (a b : Nat) (h : pyHex a = pyHex b) : a = b := by
  unfold pyHex hexDigits at h
  rw [String.append_right_inj, String.ofList_inj] at h
  exact toDigits16_injective a b h

/-! ## every named node has an entry in the final map -/

theorem Extends.isSome [DecidableEq κ] {st st' : IdMap κ} (h : Extends st st') (k : κ)
    (hk : (st.lookup k).isSome = true) : (st'.lookup k).isSome = true := by
  obtain ⟨n, hn⟩ := Option.isSome_iff_exists.mp hk
  rw [h k n hn]; rfl

theorem ctrName_isSome [DecidableEq κ] (fmt : Nat → String) (key : Tree α → κ) (st : IdMap κ)
    (n : Tree α) : ((ctrName fmt key st n).2.lookup (key n)).isSome = true := by
  show ((st.get (key n)).2.lookup (key n)).isSome = true
  rw [get_lookup]; rfl

theorem merNodes_have_ids [DecidableEq κ] (fmt : Nat → String) (key : Tree α → κ)
    (c : MermaidCfg α κ) (hc : c.nodename = ctrName fmt key) (ind : String) (ns : List (Tree α)) :
    ∀ (st : IdMap κ) (n : Tree α), n ∈ ns →
      ((merNodes c ind ns st).2.lookup (key n)).isSome = true := by
  induction ns with
  | nil => intro st n hn; simp at hn
  | cons x xs ih =>
    intro st n hn
    rw [merNodes_cons, hc]
    show ((merNodes c ind xs (ctrName fmt key st x).2).2.lookup (key n)).isSome = true
    rcases List.mem_cons.mp hn with rfl | hn
    · exact Extends.isSome (merNodes_pass fmt key c hc ind xs _).1 _ (ctrName_isSome fmt key st n)
    · exact ih _ n hn

theorem dotNodes_have_ids [DecidableEq κ] (fmt : Nat → String) (key : Tree α → κ)
    (c : DotCfg α κ) (hc : c.nodename = ctrName fmt key) (ind : String) (ns : List (Tree α)) :
    ∀ (st : IdMap κ) (n : Tree α), n ∈ ns →
      ((dotNodes c ind ns st).2.lookup (key n)).isSome = true := by
  induction ns with
  | nil => intro st n hn; simp at hn
  | cons x xs ih =>
    intro st n hn
    rw [dotNodes_cons, hc]
    show ((dotNodes c ind xs (ctrName fmt key st x).2).2.lookup (key n)).isSome = true
    rcases List.mem_cons.mp hn with rfl | hn
    · exact Extends.isSome (dotNodes_pass fmt key c hc ind xs _).1 _ (ctrName_isSome fmt key st n)
    · exact ih _ n hn

theorem dotEdgesOf_have_ids [DecidableEq κ] (fmt : Nat → String) (key : Tree α → κ)
    (c : DotCfg α κ) (hc : c.nodename = ctrName fmt key) (ind pn : String) (p : Tree α)
    (R : Tree α → Bool) (chs : List (Tree α)) :
    ∀ (st : IdMap κ) (ch : Tree α), ch ∈ chs.filter R →
      ((dotEdgesOf c ind pn p R chs st).2.lookup (key ch)).isSome = true := by
  induction chs with
  | nil => intro st ch hch; simp at hch
  | cons x xs ih =>
    intro st ch hch
    cases h : R x with
    | false =>
      rw [dotEdgesOf_cons_skip _ _ _ _ _ _ _ _ h]
      simp only [List.filter_cons, h, Bool.false_eq_true, if_false] at hch
      exact ih st ch hch
    | true =>
      rw [dotEdgesOf_cons_keep _ _ _ _ _ _ _ _ h, hc]
      simp only [List.filter_cons, h, if_true] at hch
      show ((dotEdgesOf c ind pn p R xs (ctrName fmt key st x).2).2.lookup (key ch)).isSome = true
      rcases List.mem_cons.mp hch with rfl | hch
      · exact Extends.isSome (dotEdgesOf_pass fmt key c hc ind p R xs pn _).1 _
          (ctrName_isSome fmt key st ch)
      · exact ih _ ch hch

theorem dotEdges_have_ids [DecidableEq κ] (fmt : Nat → String) (key : Tree α → κ)
    (c : DotCfg α κ) (hc : c.nodename = ctrName fmt key) (ind : String) (ps : List (Tree α)) :
    ∀ (st : IdMap κ) (p ch : Tree α), p ∈ ps → ch ∈ p.kids.filter c.filter →
      ((dotEdges c ind ps st).2.lookup (key p)).isSome = true ∧
      ((dotEdges c ind ps st).2.lookup (key ch)).isSome = true := by
  induction ps with
  | nil => intro st p ch hp; simp at hp
  | cons x xs ih =>
    intro st p ch hp hch
    rw [dotEdges_cons, hc]
    show ((dotEdges c ind xs (dotEdgesOf c ind (ctrName fmt key st x).1 x c.filter x.kids
        (ctrName fmt key st x).2).2).2.lookup (key p)).isSome = true ∧
      ((dotEdges c ind xs (dotEdgesOf c ind (ctrName fmt key st x).1 x c.filter x.kids
        (ctrName fmt key st x).2).2).2.lookup (key ch)).isSome = true
    rcases List.mem_cons.mp hp with rfl | hp
    · have e1 := (dotEdgesOf_pass fmt key c hc ind p c.filter p.kids (ctrName fmt key st p).1
        (ctrName fmt key st p).2).1
      have e2 := (dotEdges_pass fmt key c hc ind xs (dotEdgesOf c ind (ctrName fmt key st p).1 p
        c.filter p.kids (ctrName fmt key st p).2).2).1
      exact ⟨Extends.isSome (e1.trans e2) _ (ctrName_isSome fmt key st p),
        Extends.isSome e2 _ (dotEdgesOf_have_ids fmt key c hc ind _ p c.filter p.kids _ ch hch)⟩
    · exact ih _ p ch hp hch

/-- generic form of `mermaid_declared_have_ids` -/
theorem mermaid_ctr_declared_have_ids [DecidableEq κ] (fmt : Nat → String) (c : MermaidCfg α κ)
    (key : Tree α → κ) (t : Tree α) (st : IdMap κ) (n : Tree α)
    (hn : n ∈ declared c.filter c.stop c.maxlevel t) :
    ((merIter false { c with nodename := ctrName fmt key } t st).2.lookup (key n)).isSome = true := by
  rw [merIter_eq]
  have hN := merNodes_have_ids fmt key { c with nodename := ctrName fmt key } rfl (spaces c.indent)
    (Iter.preIter c.filter c.stop c.maxlevel t) st n (by rw [C06.preIter_spec]; exact hn)
  have hE := (merEdges_pass fmt key { c with nodename := ctrName fmt key } rfl (spaces c.indent)
    (Iter.preIter c.filter c.stop (edgeMax false c.maxlevel) t)
    (merNodes { c with nodename := ctrName fmt key } (spaces c.indent)
      (Iter.preIter c.filter c.stop c.maxlevel t) st).2).1
  exact Extends.isSome hE _ hN

/-- generic form of `dot_declared_have_ids` -/
theorem dot_ctr_declared_have_ids [DecidableEq κ] (fmt : Nat → String) (c : DotCfg α κ)
    (key : Tree α → κ) (t : Tree α) (st : IdMap κ) (n : Tree α)
    (hn : n ∈ declared c.filter c.stop c.maxlevel t) :
    ((dotIter false { c with nodename := ctrName fmt key } t st).2.lookup (key n)).isSome = true := by
  rw [dotIter_eq]
  have hN := dotNodes_have_ids fmt key { c with nodename := ctrName fmt key } rfl (spaces c.indent)
    (Iter.preIter c.filter c.stop c.maxlevel t) st n (by rw [C06.preIter_spec]; exact hn)
  have hE := (dotEdges_pass fmt key { c with nodename := ctrName fmt key } rfl (spaces c.indent)
    (Iter.preIter c.filter c.stop (edgeMax false c.maxlevel) t)
    (dotNodes { c with nodename := ctrName fmt key } (spaces c.indent)
      (Iter.preIter c.filter c.stop c.maxlevel t) st).2).1
  exact Extends.isSome hE _ hN

/-- two keys with entries in a well-formed map are printed differently by an injective format -/
theorem finalName_distinct [DecidableEq κ] (fmt : Nat → String)
    (hfmt : ∀ a b, fmt a = fmt b → a = b) (st : IdMap κ) (hwf : IdMap.WF st) (key : Tree α → κ)
    (n n' : Tree α) (h1 : (st.lookup (key n)).isSome = true)
    (h2 : (st.lookup (key n')).isSome = true) (hk : key n ≠ key n') :
    finalName fmt st key n ≠ finalName fmt st key n' := by
  obtain ⟨a, ha⟩ := Option.isSome_iff_exists.mp h1
  obtain ⟨b, hb⟩ := Option.isSome_iff_exists.mp h2
  intro he
  simp only [finalName, ha, hb, Option.getD_some] at he
  have hab := hfmt a b he
  subst hab
  exact hk (lookup_injective st hwf _ _ a ha hb)

/-! ## the theorems -/

/-- after one Mermaid iteration with the default naming every declared node has an identifier -/
theorem mermaid_declared_have_ids [DecidableEq κ] (c : MermaidCfg α κ) (key : Tree α → κ) (t : Tree α)
    (st : IdMap κ) (n : Tree α) (hn : n ∈ declared c.filter c.stop c.maxlevel t) :
    ((merIter false { c with nodename := mermaidName key } t st).2.lookup (key n)).isSome = true :=
  mermaid_ctr_declared_have_ids (fun n => "N" ++ toString n) c key t st n hn

/-- … and two declared nodes with different keys (`id(node)`) are printed under different names -/
theorem mermaid_default_names_distinct [DecidableEq κ] (c : MermaidCfg α κ) (key : Tree α → κ)
    (t : Tree α) (st : IdMap κ) (hwf : IdMap.WF st) (n n' : Tree α)
    (hn : n ∈ declared c.filter c.stop c.maxlevel t) (hn' : n' ∈ declared c.filter c.stop c.maxlevel t)
    (hk : key n ≠ key n') :
    let r := merIter false { c with nodename := mermaidName key } t st
    finalN r.2 key n ≠ finalN r.2 key n' := by
  intro r
  exact finalName_distinct (fun n => "N" ++ toString n) mermaidFmt_injective r.2
    ((mermaid_default_eq_pure c key t st).2.2 hwf) key n n'
    (mermaid_declared_have_ids c key t st n hn) (mermaid_declared_have_ids c key t st n' hn') hk

/-- every Mermaid edge joins two declared nodes, and every declared parent–child pair has its edge
(restated from the shared edge-set lemmas of C12 for the text `merLinesS` is built from) -/
theorem mermaid_edges_between_declared (F S : Tree α → Bool) (m : Option Int) (t : Tree α)
    (pc : Tree α × Tree α) (h : pc ∈ edgePairs F S m t) :
    pc.1 ∈ declared F S m t ∧ pc.2 ∈ declared F S m t :=
  edge_ends_declared F S m t pc h

/-- after one UniqueDotExporter iteration every declared node has an identifier -/
theorem dot_declared_have_ids [DecidableEq κ] (c : DotCfg α κ) (key : Tree α → κ) (t : Tree α)
    (st : IdMap κ) (n : Tree α) (hn : n ∈ declared c.filter c.stop c.maxlevel t) :
    ((dotIter false { c with nodename := uniqueName key } t st).2.lookup (key n)).isSome = true :=
  dot_ctr_declared_have_ids pyHex c key t st n hn

/-- … so has every end of an emitted edge (including, finding D3, children that satisfy `stop`) -/
theorem dot_edge_ends_have_ids [DecidableEq κ] (c : DotCfg α κ) (key : Tree α → κ) (t : Tree α)
    (st : IdMap κ) (pc : Tree α × Tree α)
    (h : pc ∈ edgePairsNoStopRecheck c.filter c.stop c.maxlevel t) :
    let r := dotIter false { c with nodename := uniqueName key } t st
    (r.2.lookup (key pc.1)).isSome = true ∧ (r.2.lookup (key pc.2)).isSome = true := by
  intro r
  simp only [edgePairsNoStopRecheck, List.mem_flatMap, List.mem_map] at h
  obtain ⟨p, hp, ch, hch, rfl⟩ := h
  show ((dotIter false { c with nodename := ctrName pyHex key } t st).2.lookup (key p)).isSome = true ∧
    ((dotIter false { c with nodename := ctrName pyHex key } t st).2.lookup (key ch)).isSome = true
  rw [dotIter_eq]
  exact dotEdges_have_ids pyHex key { c with nodename := ctrName pyHex key } rfl (spaces c.indent)
    (Iter.preIter c.filter c.stop (edgeMax false c.maxlevel) t) _ p ch
    (by rw [C06.preIter_spec, edgeMax_false]; exact hp) hch

/-- two nodes with identifiers and different keys are printed under different names -/
theorem dot_unique_names_distinct [DecidableEq κ] (c : DotCfg α κ) (key : Tree α → κ)
    (t : Tree α) (st : IdMap κ) (hwf : IdMap.WF st) (n n' : Tree α)
    (hn : n ∈ declared c.filter c.stop c.maxlevel t) (hn' : n' ∈ declared c.filter c.stop c.maxlevel t)
    (hk : key n ≠ key n') :
    let r := dotIter false { c with nodename := uniqueName key } t st
    finalHex r.2 key n ≠ finalHex r.2 key n' := by
  intro r
  exact finalName_distinct pyHex pyHex_injective r.2
    ((dot_unique_eq_pure c key t st).2.2 hwf) key n n'
    (dot_declared_have_ids c key t st n hn) (dot_declared_have_ids c key t st n' hn') hk

/-- the same for any two nodes that have identifiers, e.g. the ends of emitted edges
(`dot_edge_ends_have_ids`) -/
theorem dot_unique_names_distinct_of_ids [DecidableEq κ] (c : DotCfg α κ) (key : Tree α → κ)
    (t : Tree α) (st : IdMap κ) (hwf : IdMap.WF st) (n n' : Tree α) :
    let r := dotIter false { c with nodename := uniqueName key } t st
    (r.2.lookup (key n)).isSome = true → (r.2.lookup (key n')).isSome = true → key n ≠ key n' →
    finalHex r.2 key n ≠ finalHex r.2 key n' := by
  intro r h1 h2 hk
  exact finalName_distinct pyHex pyHex_injective r.2
    ((dot_unique_eq_pure c key t st).2.2 hwf) key n n' h1 h2 hk

/-! ## non-vacuity: the hypotheses hold on a concrete three-node tree -/

def exTree : Tree Nat := node 0 [node 1 [], node 2 []]
def exKey : Tree Nat → Nat := fun n => n.label
def exMer : MermaidCfg Nat Nat :=
  { graph := "graph", name := "TD", options := [], indent := 0,
    nodename := NameFn.pure (fun _ => ""), nodefunc := fun _ => "",
    edgefunc := fun _ _ => "-->", filter := fun _ => true, stop := fun _ => false,
    maxlevel := none }
def exDot : DotCfg Nat Nat :=
  { graph := "digraph", name := "tree", options := [], indent := 4,
    nodename := NameFn.pure (fun _ => ""), nodeattr := fun _ => none, edgeattr := fun _ _ => none,
    edgetype := fun _ _ => "->", filter := fun _ => true, stop := fun n => n.label == 2,
    maxlevel := none }

theorem exMer_declared :
    declared exMer.filter exMer.stop exMer.maxlevel exTree = [exTree, node 1 [], node 2 []] := by
  rfl
theorem exDot_declared :
    declared exDot.filter exDot.stop exDot.maxlevel exTree = [exTree, node 1 []] := by
  rfl
theorem exDot_edges :
    edgePairsNoStopRecheck exDot.filter exDot.stop exDot.maxlevel exTree =
      [(exTree, node 1 []), (exTree, node 2 [])] := by
  rfl
theorem exWF : IdMap.WF ([] : IdMap Nat) := ⟨rfl, List.nodup_nil⟩

/-- Mermaid: root and first child are declared, have different keys, so get different names -/
example :
    let r := merIter false { exMer with nodename := mermaidName exKey } exTree []
    (r.2.lookup (exKey (node 2 []))).isSome = true ∧
    finalN r.2 exKey exTree ≠ finalN r.2 exKey (node 1 []) :=
  ⟨mermaid_declared_have_ids exMer exKey exTree [] (node 2 []) (by rw [exMer_declared]; simp),
   mermaid_default_names_distinct exMer exKey exTree [] exWF exTree (node 1 [])
    (by rw [exMer_declared]; simp) (by rw [exMer_declared]; simp) (by decide)⟩

/-- … and this is what the run really produces (kernel-checked) -/
example :
    merIter false { exMer with nodename := mermaidName exKey } exTree [] =
      (["graph TD", "N0", "N1", "N2", "N0-->N1", "N0-->N2"], [(0, 0), (1, 1), (2, 2)]) := by
  decide

/-- DOT: node `2` satisfies `stop`, is not declared, but is the end of an emitted edge (finding D3)
and so has an identifier that differs from the root's -/
example :
    let r := dotIter false { exDot with nodename := uniqueName exKey } exTree []
    ((r.2.lookup (exKey exTree)).isSome = true ∧ (r.2.lookup (exKey (node 2 []))).isSome = true) ∧
    finalHex r.2 exKey exTree ≠ finalHex r.2 exKey (node 1 []) ∧
    finalHex r.2 exKey exTree ≠ finalHex r.2 exKey (node 2 []) := by
  intro r
  have h := dot_edge_ends_have_ids exDot exKey exTree [] (exTree, node 2 [])
    (by rw [exDot_edges]; simp)
  exact ⟨h,
    dot_unique_names_distinct exDot exKey exTree [] exWF exTree (node 1 [])
      (by rw [exDot_declared]; simp) (by rw [exDot_declared]; simp) (by decide),
    dot_unique_names_distinct_of_ids exDot exKey exTree [] exWF exTree (node 2 []) h.1 h.2
      (by decide)⟩

example :
    dotIter false { exDot with nodename := uniqueName exKey } exTree [] =
      (["digraph tree {", "    \"0x0\";", "    \"0x1\";", "    \"0x0\" -> \"0x1\";",
        "    \"0x0\" -> \"0x2\";", "}"], [(0, 0), (1, 1), (2, 2)]) := by
  decide

end Anytree.Props.C13b
