import Anytree.Spec.Search
import Anytree.Props.C06
/-!
# C14 — search functions return the filtered pre-order and enforce their count bounds
-/
namespace Anytree.Props.C14
open Anytree Tree Search Spec
variable {α : Type}

/-- `findall` = the specification: the matches are exactly what `PreOrderIter` yields (by C06: the
filtered pre-order of the admitted tree); `CountError` iff the count is below `mincount` or above
`maxcount`, the lower bound first, carrying the bound and the count -/
theorem findall_eq_spec (F S : Tree α → Bool) (m mn mx : Option Int) (t : Tree α) :
    Search.findall F S m mn mx t = Spec.findallS F S m mn mx t := by
  unfold Search.findall Spec.findallS Spec.matchesS
  rw [C06.preIter_spec]
  cases mn with
  | none =>
    cases mx with
    | none => simp
    | some b => simp only [Option.any_none, Bool.false_eq_true, if_false, Option.any_some,
        decide_eq_true_eq, Option.getD_some]
  | some a =>
    simp only [Option.any_some, decide_eq_true_eq, Option.getD_some]
    split
    · rfl
    · cases mx with
      | none => simp
      | some b => simp only [Option.any_some, decide_eq_true_eq, Option.getD_some]

/-- what a successful `findall` returns is what `PreOrderIter` yields for the same arguments -/
theorem findall_ok_eq_preIter (F S : Tree α → Bool) (m mn mx : Option Int) (t : Tree α)
    (r : List (Tree α)) (h : Search.findall F S m mn mx t = .ok r) : r = Iter.preIter F S m t := by
  unfold Search.findall at h
  cases mn <;> cases mx <;> simp only at h <;> (repeat' split at h) <;> first | cases h; rfl | cases h

/-- `CountError` if and only if the number of matches is below `mincount` or above `maxcount` -/
theorem findall_countError_iff (F S : Tree α → Bool) (m mn mx : Option Int) (t : Tree α) :
    (∃ a b c, Search.findall F S m mn mx t = .countError a b c) ↔
      ((∃ k, mn = some k ∧ ((Iter.preIter F S m t).length : Int) < k) ∨
       (∃ k, mx = some k ∧ ((Iter.preIter F S m t).length : Int) > k)) := by
  unfold Search.findall
  cases mn <;> cases mx <;> simp only <;> (repeat' split) <;> simp_all <;> omega

/-- `find`: `None` for no match, the node for exactly one, `CountError` for more than one -/
theorem find_eq_spec (F S : Tree α → Bool) (m : Option Int) (t : Tree α) :
    Search.find F S m t = Spec.findS F S m t := by
  unfold Search.find Spec.findS
  rw [findall_eq_spec]
  unfold Spec.findallS
  generalize Spec.matchesS F S m t = r
  match r with
  | [] => simp
  | [x] => simp
  | x :: y :: rest =>
    simp only [Option.any_none, Bool.false_eq_true, if_false, Option.any_some, List.length_cons]
    have : (1 : Int) < (rest.length : Int) + 1 + 1 := by omega
    simp [this]

/-- the attribute filter selects exactly the nodes whose attribute exists and equals the value;
a node lacking the attribute is skipped (never an error) -/
theorem filterByName_iff {V : Type} [DecidableEq V] (attr : Tree α → String → Option V)
    (name : String) (value : V) (n : Tree α) :
    Search.filterByName attr name value n = true ↔ attr n name = some value := by
  unfold Search.filterByName
  cases attr n name <;> simp

theorem findallByAttr_eq_spec {V : Type} [DecidableEq V] (attr : Tree α → String → Option V)
    (value : V) (name : String) (m mn mx : Option Int) (t : Tree α) :
    Search.findallByAttr attr value name m mn mx t =
      Spec.findallS (fun n => decide (attr n name = some value)) (fun _ => false) m mn mx t := by
  unfold Search.findallByAttr
  rw [findall_eq_spec]
  congr 1
  funext n
  rw [Bool.eq_iff_iff, filterByName_iff]; simp

theorem findByAttr_eq_spec {V : Type} [DecidableEq V] (attr : Tree α → String → Option V)
    (value : V) (name : String) (m : Option Int) (t : Tree α) :
    Search.findByAttr attr value name m t =
      Spec.findS (fun n => decide (attr n name = some value)) (fun _ => false) m t := by
  unfold Search.findByAttr
  rw [find_eq_spec]
  congr 1
  funext n
  rw [Bool.eq_iff_iff, filterByName_iff]; simp

/-- the cached variants forward every argument -/
theorem cached_eq : @Search.cachedFindall = @Search.findall ∧ @Search.cachedFind = @Search.find :=
  ⟨rfl, rfl⟩

-- non-vacuity: a tree with two matches violates maxcount = 1 and satisfies mincount = 2
example :
    let t : Tree Nat := node 0 [node 1 [], node 2 []]
    (match Search.findall (fun n => n.label != 0) (fun _ => false) none none (some 1) t with
     | .countError false 1 2 => true | _ => false) = true ∧
    (match Search.findall (fun n => n.label != 0) (fun _ => false) none (some 2) none t with
     | .ok r => r.map label | _ => []) = [1, 2] := by
  decide

end Anytree.Props.C14
