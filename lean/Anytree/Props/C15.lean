import Anytree.Spec.Walker
import Anytree.Lemmas.Walker
/-!
# C15 — Walker.walk returns the unique tree path between two nodes
-/
namespace Anytree.Props.C15
open Anytree Tree Walker Spec WalkerLemmas

/-- parent of a node -/
def par (x : WNode) : WNode := (x.1, x.2.dropLast)

/-- in a tree the *filter* of `__calc_common` is the longest common prefix of the two root paths -/
theorem calcCommon_eq_lcp (t : Nat) (a b : Addr) :
    calcCommon (pathOf (t, a)) (pathOf (t, b)) = (prefixes (lcp2 a b)).map (fun p => (t, p)) := by
  rw [pathOf_eq, pathOf_eq]
  exact calcCommon_prefixes t a b

/-- mirror = specification, for every pair of nodes -/
theorem walk_eq_spec (s e : WNode) : Walker.walk s e = Spec.walkS s e := by
  obtain ⟨t, a⟩ := s
  obtain ⟨u, b⟩ := e
  simp only [Walker.walk, Spec.walkS, rootOf_eq]
  by_cases h : t = u
  · subst h
    simp only [ne_eq, not_true_eq_false, if_false, pathOf_eq, calcCommon_prefixes, List.getLast?_map,
      getLast?_prefixes, Option.map_some, List.length_map, length_prefixes,
      Prod.mk.injEq, true_and, below, ← List.map_drop, List.map_reverse]
    congr 1
    · by_cases ha : a = lcp2 a b
      · rw [if_pos ha]
        have : (prefixes a).drop ((lcp2 a b).length + 1) = [] := by
          rw [← ha]; exact below_self a
        rw [this]; rfl
      · rw [if_neg ha]
    · by_cases hb : b = lcp2 a b
      · rw [if_pos hb]
        have : (prefixes b).drop ((lcp2 a b).length + 1) = [] := by
          rw [← hb]; exact below_self b
        rw [this]; rfl
      · rw [if_neg hb]
  · simp [h]

/-- nodes of different trees: WalkError -/
theorem walk_different_trees (s e : WNode) (h : s.1 ≠ e.1) : Walker.walk s e = .walkError := by
  rw [walk_eq_spec]; simp [Spec.walkS, h]

/-- `common` is the lowest common ancestor: an ancestor-or-self of both, below every other one -/
theorem common_is_lca (a b : Addr) :
    lcp2 a b <+: a ∧ lcp2 a b <+: b ∧ ∀ d, d <+: a → d <+: b → d <+: lcp2 a b :=
  ⟨lcp2_prefix_left a b, lcp2_prefix_right a b, fun d => prefix_lcp2 d a b⟩

/-- start or end itself when one is an ancestor of the other -/
theorem common_of_ancestor (a b : Addr) (h : a <+: b) : lcp2 a b = a := lcp2_of_prefix a b h

/-- consecutive nodes of `below c a` are parent and child -/
theorem below_step (c a : Addr) (k : Nat) (h : k + 1 < (below c a).length) :
    ((below c a)[k + 1]).dropLast = (below c a)[k]'(by omega) := by
  rw [below_getElem, below_getElem, List.dropLast_eq_take, List.take_take, List.length_take]
  rw [length_below] at h
  congr 1
  omega

theorem below_eq_nil_iff {c a : Addr} (hc : c <+: a) : below c a = [] ↔ a = c := by
  constructor
  · intro h
    have hl := length_below c a
    rw [h] at hl
    have := hc.length_le
    have hc' := List.prefix_iff_eq_take.1 hc
    rw [hc', show c.length = a.length by simp at hl; omega]
    simp
  · rintro rfl; exact below_self a

theorem below_head {c a : Addr} (hc : c <+: a) (h : 0 < (below c a).length) :
    ((below c a)[0]).dropLast = c := by
  rw [below_getElem, List.dropLast_eq_take, List.take_take, List.length_take]
  rw [length_below] at h
  have hc' := List.prefix_iff_eq_take.1 hc
  conv => rhs; rw [hc']
  congr 1
  omega

theorem below_last (c a : Addr) (h : 0 < (below c a).length) :
    (below c a)[(below c a).length - 1] = a := by
  rw [below_getElem]
  rw [length_below] at h ⊢
  apply List.take_of_length_le
  omega

/-- `upwards` lists the nodes from `start` up to but excluding `common`, each the child of the next;
`downwards` the nodes below `common` down to `end`, each the parent of the next -/
theorem walk_chains (t : Nat) (a b : Addr) :
    ∃ up down, Spec.walkS (t, a) (t, b) = .ok up (t, lcp2 a b) down ∧
      (∀ i (h : i + 1 < up.length), par (up[i]'(by omega)) = up[i + 1]) ∧
      (up ≠ [] → up.head? = some (t, a) ∧ (up.getLast?.map par) = some (t, lcp2 a b)) ∧
      (up = [] ↔ a = lcp2 a b) ∧
      (∀ i (h : i + 1 < down.length), par (down[i + 1]) = down[i]'(by omega)) ∧
      (down ≠ [] → down.getLast? = some (t, b) ∧ (down.head?.map par) = some (t, lcp2 a b)) ∧
      (down = [] ↔ b = lcp2 a b) := by
  have hca := lcp2_prefix_left a b
  have hcb := lcp2_prefix_right a b
  generalize hc : lcp2 a b = c at hca hcb
  refine ⟨(below c a).reverse.map (fun p => (t, p)), (below c b).map (fun p => (t, p)), ?_, ?_, ?_, ?_, ?_, ?_, ?_⟩
  · simp [Spec.walkS, hc]
  · intro i h
    simp only [List.length_map, List.length_reverse] at h
    simp only [par, List.getElem_map, List.getElem_reverse, Prod.mk.injEq, true_and]
    have := below_step c a ((below c a).length - 1 - (i + 1)) (by omega)
    rw [← this]
    congr 2
    omega
  · intro hne
    have hpos : 0 < (below c a).length := by
      apply List.length_pos_iff.2
      intro h0; apply hne; simp [h0]
    constructor
    · rw [List.head?_eq_getElem?, List.getElem?_eq_getElem (by simpa using hpos)]
      simp only [List.getElem_map, List.getElem_reverse, Nat.sub_zero]
      rw [below_last c a hpos]
    · rw [List.getLast?_eq_getElem?, List.getElem?_eq_getElem (by simp; omega)]
      simp only [Option.map_some, par, List.getElem_map, List.getElem_reverse, List.length_map,
        List.length_reverse, Nat.sub_self]
      rw [below_head hca hpos]
  · rw [← below_eq_nil_iff hca]; simp
  · intro i h
    simp only [List.length_map] at h
    simp only [par, List.getElem_map, Prod.mk.injEq, true_and]
    exact below_step c b i h
  · intro hne
    have hpos : 0 < (below c b).length := by
      apply List.length_pos_iff.2
      intro h0; apply hne; simp [h0]
    constructor
    · rw [List.getLast?_eq_getElem?, List.getElem?_eq_getElem (by simp; omega)]
      simp only [List.getElem_map, List.length_map]
      rw [below_last c b hpos]
    · rw [List.head?_eq_getElem?, List.getElem?_eq_getElem (by simpa using hpos)]
      simp only [Option.map_some, par, List.getElem_map]
      rw [below_head hcb hpos]
  · rw [← below_eq_nil_iff hcb]; simp

/-- `upwards + (common,) + downwards` is a simple path: no node twice -/
theorem walk_simple_path (t : Nat) (a b : Addr) (up down : List WNode) (c : WNode)
    (h : Spec.walkS (t, a) (t, b) = .ok up c down) : (up ++ [c] ++ down).Nodup := by
  simp only [Spec.walkS, ne_eq, not_true_eq_false, if_false, Res.ok.injEq] at h
  obtain ⟨rfl, rfl, rfl⟩ := h
  have inj : ∀ (l : List Addr), l.Nodup → (l.map (fun p => ((t, p) : WNode))).Nodup := by
    intro l hl
    exact List.Pairwise.map _ (fun p q hpq e => hpq (by simpa using e)) hl
  have nb : ∀ x : Addr, (below (lcp2 a b) x).Nodup := fun x =>
    List.Nodup.sublist (List.drop_sublist _ _) (nodup_prefixes x)
  rw [List.append_assoc, List.nodup_append]
  refine ⟨?_, ?_, ?_⟩
  · apply inj
    exact List.pairwise_reverse.2 ((nb a).imp (fun h e => h e.symm))
  · rw [List.singleton_append, List.nodup_cons]
    refine ⟨?_, inj _ (nb b)⟩
    intro hm
    obtain ⟨p, hp, e⟩ := List.mem_map.1 hm
    obtain ⟨k, hk1, hk2, rfl⟩ := mem_below hp
    have : (lcp2 a b).length = k := by
      have := congrArg (fun x : WNode => x.2.length) e
      simp at this; omega
    omega
  · intro x hx y hy e
    subst e
    obtain ⟨p, hp, rfl⟩ := List.mem_map.1 hx
    rw [List.mem_reverse] at hp
    obtain ⟨k, hk1, hk2, rfl⟩ := mem_below hp
    rcases List.mem_cons.1 hy with e | hy
    · have := congrArg (fun x : WNode => x.2.length) e
      simp at this; omega
    · obtain ⟨q, hq, e⟩ := List.mem_map.1 hy
      obtain ⟨k', hk1', hk2', rfl⟩ := mem_below hq
      have e2 : List.take k' b = List.take k a := by simpa using e
      have hpre : List.take k a <+: lcp2 a b :=
        prefix_lcp2 _ a b (List.take_prefix _ _) (e2 ▸ List.take_prefix _ _)
      have := hpre.length_le
      simp at this; omega

/-- `walk(end, start)` is the mirror image -/
theorem walk_mirror (s e : WNode) (up down : List WNode) (c : WNode)
    (h : Spec.walkS s e = .ok up c down) : Spec.walkS e s = .ok down.reverse c up.reverse := by
  obtain ⟨t, a⟩ := s
  obtain ⟨u, b⟩ := e
  simp only [Spec.walkS] at h ⊢
  by_cases htu : t = u
  · subst htu
    simp only [ne_eq, not_true_eq_false, if_false, Res.ok.injEq] at h ⊢
    obtain ⟨rfl, rfl, rfl⟩ := h
    simp [lcp2_comm b a, List.map_reverse]
  · simp [htu] at h

end Anytree.Props.C15
