import Anytree.Model.Walker
import Anytree.Model.Search
namespace Anytree.Props.C15
end Anytree.Props.C15
