import Anytree.Lemmas.ForestFault
import Anytree.Props.C02
/-!
# C16 — notification hooks fire exactly once and in order around each link change

The log of the mirror records, per hook invocation: kind, node, argument, and a snapshot of the
whole forest as the hook sees it.  For calls no hook vetoes it equals the closed-form log of the
specification; the `*_sees` theorems state what each snapshot shows.
-/
namespace Anytree.Props.C16
open Anytree Forest

/-- the complete hook log of a parent assignment, snapshots included -/
theorem log_setParent (c : Cfg) (hφ : c.φ = noFaults) (fuel : Nat) (s : Forest) (n : Nat)
    (v : Option Arg) (h : Inv s) (hv : ArgOk s.n v) (hfuel : s.n < fuel) :
    (exec c fuel (.setParent n v) s).log = (Spec.setParent c.fl s n v).log :=
  (C02.setParent_eq_spec c hφ fuel s n v h hv hfuel).2.2

/-- the complete hook log of `del n.children` -/
theorem log_delChildren (c : Cfg) (hφ : c.φ = noFaults) (fuel : Nat) (s : Forest) (n : Nat)
    (h : Inv s) (hfuel : s.n < fuel) :
    (exec c fuel (.delChildren n) s).log = (Spec.delChildren s n).log :=
  (C02.delChildren_eq_spec c hφ fuel s n h hfuel).2.2

/-- the complete hook log of a successful `n.children = xs`: `_pre_detach_children(old)`, the
detach pair of every former child in order, `_post_detach_children(old)`, `_pre_attach_children(xs)`,
for every `x` in order its detach pair (if it still has a parent) and its attach pair,
`_post_attach_children(xs)` — snapshots included -/
theorem log_setChildren (c : Cfg) (hφ : c.φ = noFaults) (fuel : Nat) (s : Forest) (n : Nat)
    (xs : List Nat) (h : Inv s) (hfuel : s.n + 2 < fuel) (hn : n < s.n) (hnd : xs.Nodup)
    (hlt : ∀ x ∈ xs, x < s.n) (hok : ∀ x ∈ xs, x ≠ n ∧ Spec.isAnc s x n = false) :
    (exec c fuel (.setChildren n (some (xs.map Arg.node))) s).log =
      (Spec.delChildren s n).log ++ [Spec.ev .preAttachChildren n xs (Spec.delChildren s n).f] ++
        (Spec.attachAll (Spec.delChildren s n).f n xs).2 ++
        [Spec.ev .postAttachChildren n xs (Spec.attachAll (Spec.delChildren s n).f n xs).1] := by
  rw [(C02.setChildren_eq_spec c hφ fuel s n xs h hfuel hn hnd hlt hok).2.2,
    Spec.setChildren_ok c.fl s n xs hnd hok]

/-- all detaches (in order) come before all attaches (in order): the kinds of the specified log -/
theorem delChildren_log_kinds (s : Forest) (n : Nat) :
    ∃ mid, (Spec.delChildren s n).log =
      [Spec.ev .preDetachChildren n (s.children n) s] ++ mid ++
      [Spec.ev .postDetachChildren n (s.children n) (Spec.detachAll s (s.children n)).1] ∧
      mid = (Spec.detachAll s (s.children n)).2 :=
  ⟨_, rfl, rfl⟩

/-- shape of the specified log of a parent assignment that happens: `_pre_detach(old)`,
`_post_detach(old)` if the node had a parent, then `_pre_attach(new)`, `_post_attach(new)` if it
gets one — each exactly once, on the moving node, with the right argument -/
theorem setParent_log_shape (fl : Flavor) (s : Forest) (n p : Nat)
    (hok : (Spec.setParent fl s n (some (.node p))).res = .ok ()) (hne : s.parent n ≠ some p) :
    ((Spec.setParent fl s n (some (.node p))).log.map fun e => (e.kind, e.node, e.arg)) =
      (match s.parent n with
       | none => []
       | some q => [(HookKind.preDetach, n, [q]), (HookKind.postDetach, n, [q])]) ++
      [(HookKind.preAttach, n, [p]), (HookKind.postAttach, n, [p])] := by
  simp only [Spec.setParent, hne, if_false] at hok ⊢
  split at hok
  · cases hok
  · rename_i hb
    have hb' : (decide (p = n) || Spec.isAnc s n p) = false := by simpa using hb
    simp only [hb', Bool.false_eq_true, if_false]
    cases hp : s.parent n <;> simp [Spec.detachLog, hp, Spec.attachLog, Spec.ev]

theorem detach_log_shape (fl : Flavor) (s : Forest) (n : Nat) :
    ((Spec.setParent fl s n none).log.map fun e => (e.kind, e.node, e.arg)) =
      (match s.parent n with
       | none => []
       | some q => [(HookKind.preDetach, n, [q]), (HookKind.postDetach, n, [q])]) := by
  simp only [Spec.setParent]
  cases hp : s.parent n <;> simp [Spec.detachLog, hp, Spec.ev]

/-- refused calls and no-ops call nothing -/
theorem no_hooks_when_refused_or_noop (fl : Flavor) (s : Forest) (n : Nat) (v : Option Arg)
    (h : (Spec.setParent fl s n v).res ≠ .ok () ∨ (Spec.setParent fl s n v).f = s ∧
      (∀ p, v = some (.node p) → s.parent n = some p) ∧ (v = none → s.parent n = none)) :
    (Spec.setParent fl s n v).log = [] := by
  match v with
  | some .nonNode => cases fl <;> simp [Spec.setParent]
  | none =>
    cases h with
    | inl h => simp [Spec.setParent] at h
    | inr h => simp [Spec.setParent, Spec.detachLog_root (h.2.2 rfl)]
  | some (.node p) =>
    simp only [Spec.setParent] at h ⊢
    by_cases hs : s.parent n = some p
    · simp [hs]
    · simp only [hs, if_false] at h ⊢
      split
      · rfl
      · rename_i hb
        simp only [hb, if_false] at h
        cases h with
        | inl h => exact absurd rfl h
        | inr h => exact absurd (h.2.1 p rfl) hs

/-! ## what the hooks observe -/

/-- `_pre_detach` sees the node still being a child of its old parent (the untouched pre-state) -/
theorem pre_detach_sees (s : Forest) (n q : Nat) (hp : s.parent n = some q) :
    (Spec.detachLog s n).head? = some (Spec.ev .preDetach n [q] s) := by
  simp [Spec.detachLog, hp]

/-- `_post_detach` and `_pre_attach` see the node as a root that is in neither children list -/
theorem post_detach_sees (s : Forest) (h : Inv s) (n : Nat) :
    (Spec.detached s n).parent n = none ∧ ∀ q, n ∉ (Spec.detached s n).children q := by
  constructor
  · cases hp : s.parent n with
    | none => rw [Spec.detached_root hp]; exact hp
    | some q => rw [Spec.detached_eq hp]; simp
  · intro q
    rw [Spec.detached_children h]
    simp

/-- `_post_attach` sees the node as the last child of its new parent -/
theorem post_attach_sees (s : Forest) (n p : Nat) :
    (Spec.attached s n p).parent n = some p ∧ (Spec.attached s n p).children p = s.children p ++ [n] := by
  simp [Spec.attached]

/-- an exception from a post hook of a parent assignment propagates without undoing the step that
preceded it; an exception from `_pre_detach` leaves everything as it was — for **every** fault
schedule -/
theorem post_fault_keeps_step (c : Cfg) (fuel n : Nat) (v : Option Arg) (s : Forest) (h : Inv s)
    (hv : ArgOk s.n v) (hfuel : s.n < fuel) (i : Nat) (k : HookKind) (m : Nat)
    (he : (exec c fuel (.setParent n v) s).res = .error (.hook i k m)) :
    let f' := (exec c fuel (.setParent n v) s).f
    m = n ∧
    (k = .preDetach → f' = s) ∧
    (k = .postDetach → f' = Spec.detached s n) ∧
    (k = .preAttach → f' = Spec.detached s n) ∧
    (k = .postAttach → ∃ p, v = some (.node p) ∧ f' = Spec.attached (Spec.detached s n) n p) := by
  have ho := setParent_outcome c fuel n v ⟨s, [], 0⟩ h hv hfuel
  simp only [exec, Op.run] at he ⊢
  generalize (setParent c fuel n v ⟨s, [], 0⟩).1 = r at ho he
  generalize (setParent c fuel n v ⟨s, [], 0⟩).2.f = f' at ho
  cases ho with
  | refused e hh => cases he; simp at hh
  | noop => cases he
  | preDetach j => cases he; simp
  | postDetach j => cases he; simp
  | preAttach j => cases he; simp
  | postAttach j p hv' =>
    cases he
    refine ⟨rfl, by simp, by simp, by simp, fun _ => ⟨p, ?_, rfl⟩⟩
    match v, hv' with
    | some (.node q), hv' => simp [argNode] at hv'; rw [hv']
  | detached _ => cases he
  | moved _ _ => cases he

end Anytree.Props.C16
