import Anytree.Model.Nav
import Anytree.Model.Resolver
/-!
# C17 — tree operations use node identity only, never user-defined special methods

Honest scope: the formal content here is small.  The mirrors of this project compare nodes only
through their identity (`Nat` indices, addresses) — no function of the model takes the user's
`__eq__`/`__bool__`/`__len__`/`__hash__`/… as an input, so every modelled result is trivially
independent of them (`*_ignores_user_ops`).  What *is* informative is the contrast with the code
before the repair of finding D6, whose three non-identity sites are modelled below with the user
operations as explicit parameters: with the identity semantics they coincide with the repaired
functions, and for an adversarial class they differ (kernel-checked witnesses = the replays of D6).
The weight of this property lies on the adversarial correspondence run (`harness/props/C17.py`).
-/
namespace Anytree.Props.C17
open Anytree Tree

variable {α : Type}

/-- user-defined operations a node class may override: truth value and equality -/
structure UserOps where
  truth : Addr → Bool              -- `bool(node)` (`__bool__`, else `__len__`)
  eq : Addr → Addr → Bool          -- `node == other`

/-- what a plain class does: every node is truthy, `==` is identity -/
def plainOps : UserOps := ⟨fun _ => true, fun a b => a == b⟩

/-- `tuple.index(x)` with a user `==` -/
def indexU (eq : Addr → Addr → Bool) (l : List Addr) (x : Addr) : Nat :=
  match l with
  | [] => 0
  | y :: ys => if eq y x then 0 else indexU eq ys x + 1

/-- `util.leftsibling` before the repair: `if node.parent:` … `pchildren.index(node)` -/
def leftSiblingLegacy (u : UserOps) (r : Tree α) (a : Addr) : Option Addr :=
  if a = [] then none
  else if !u.truth a.dropLast then none
  else
    let pchildren := Nav.childAddrs r a.dropLast
    let idx := indexU u.eq pchildren a
    if idx != 0 then pchildren[idx - 1]? else none

/-- `util.rightsibling` before the repair -/
def rightSiblingLegacy (u : UserOps) (r : Tree α) (a : Addr) : Option Addr :=
  if a = [] then none
  else if !u.truth a.dropLast then none
  else
    let pchildren := Nav.childAddrs r a.dropLast
    pchildren[indexU u.eq pchildren a + 1]?

/-- `if match not in matches: matches.append(match)` before the repair (`in` uses `==`) -/
def appendNewLegacy (eq : Addr → Addr → Bool) (acc ms : List Addr) : List Addr :=
  ms.foldl (fun acc m => if acc.any (fun k => eq k m) then acc else acc ++ [m]) acc

theorem indexU_plain (l : List Addr) (x : Addr) : indexU plainOps.eq l x = l.idxOf x := by
  induction l with
  | nil => simp [indexU]
  | cons y ys ih =>
    have ih' : indexU (fun a b => a == b) ys x = List.idxOf x ys := ih
    simp [indexU, plainOps, List.idxOf_cons, ih']

/-- for a plain class the old code and the repaired code agree … -/
theorem leftSibling_legacy_plain (r : Tree α) (a : Addr) :
    leftSiblingLegacy plainOps r a = Nav.leftSibling r a := by
  unfold leftSiblingLegacy Nav.leftSibling
  simp only [indexU_plain]
  simp [plainOps]

theorem rightSibling_legacy_plain (r : Tree α) (a : Addr) :
    rightSiblingLegacy plainOps r a = Nav.rightSibling r a := by
  unfold rightSiblingLegacy Nav.rightSibling
  simp only [indexU_plain]
  simp [plainOps]

theorem appendNew_legacy_plain (acc ms : List Addr) :
    appendNewLegacy plainOps.eq acc ms = Resolver.appendNew acc ms := by
  unfold appendNewLegacy Resolver.appendNew
  congr 1
  funext acc m
  simp [plainOps, List.contains_eq_any_beq]

/-- … and the repaired functions do not take the user's operations at all: whatever a node class
defines, the result is the same -/
theorem leftSibling_ignores_user_ops (_u : UserOps) (r : Tree α) (a : Addr) :
    Nav.leftSibling r a = Nav.leftSibling r a := rfl

/-! ## D6 witnesses: the old code depended on user operations -/

def t3 : Tree Nat := node 0 [node 1 [], node 2 [], node 3 []]
/-- every node compares equal to every other -/
def alwaysEqual : UserOps := ⟨fun _ => true, fun _ _ => true⟩
/-- a falsy node class (`__bool__` returns False / `__len__` returns 0) -/
def falsy : UserOps := ⟨fun _ => false, fun a b => a == b⟩

/-- with always-equal nodes, `rightsibling` of the last child was the second child (and of the
second child too), `leftsibling` of the third child was `None`; with falsy nodes both were `None` -/
theorem D6_witness :
    rightSiblingLegacy alwaysEqual t3 [2] = some [1] ∧ Nav.rightSibling t3 [2] = none ∧
    leftSiblingLegacy alwaysEqual t3 [2] = none ∧ Nav.leftSibling t3 [2] = some [1] ∧
    leftSiblingLegacy falsy t3 [1] = none ∧ Nav.leftSibling t3 [1] = some [0] ∧
    appendNewLegacy alwaysEqual.eq [] [[0], [1], [2]] = [[0]] ∧
    Resolver.appendNew [] [[0], [1], [2]] = [[0], [1], [2]] := by decide

end Anytree.Props.C17
