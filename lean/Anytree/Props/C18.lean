import Anytree.Lemmas.Forest
/-!
# C18 — LightNodeMixin behaves identically to NodeMixin

`lightnodemixin.py` is a copy of `nodemixin.py` without the two `isinstance` checks.  In the mirror
the flavour is read in exactly two places (`setParent` and `checkChildren`, both only for a non-node
argument), so for calls whose arguments are tree nodes the two flavours run the same program:
same outcome, same forest, same hook log — for every fault schedule and assertion setting.
The read side (navigation, iterators, Walker, Resolver, RenderTree) has one mirror for both
flavours, so equality there holds by construction and is validated by the lock-step run.
-/
namespace Anytree.Props.C18
open Anytree Forest

/-- same assertion switch and fault schedule, flavours may differ -/
def SameButFlavor (c1 c2 : Cfg) : Prop := c1.asrt = c2.asrt ∧ c1.φ = c2.φ

def NodeArg : Option Arg → Prop
  | some .nonNode => False
  | _ => True

def NodeArgs : List Arg → Prop
  | [] => True
  | .nonNode :: _ => False
  | .node _ :: rest => NodeArgs rest

theorem hook_eq {c1 c2 : Cfg} (h : SameButFlavor c1 c2) (k : HookKind) (n : Nat) (a : List Nat) :
    hook c1 k n a = hook c2 k n a := by
  funext w; simp [hook, h.2]

theorem assertM_eq {c1 c2 : Cfg} (h : SameButFlavor c1 c2) (cond : Forest → Bool) :
    assertM c1 cond = assertM c2 cond := by
  funext w; simp [assertM, h.1]

theorem detach_eq {c1 c2 : Cfg} (h : SameButFlavor c1 c2) (n : Nat) (old : Option Nat) :
    detach c1 n old = detach c2 n old := by
  cases old with
  | none => rfl
  | some p => simp [detach, hook_eq h, assertM_eq h]

theorem attach_eq {c1 c2 : Cfg} (h : SameButFlavor c1 c2) (n : Nat) (new : Option Nat) :
    attach c1 n new = attach c2 n new := by
  cases new with
  | none => rfl
  | some p => simp [attach, hook_eq h, assertM_eq h]

theorem setParent_eq {c1 c2 : Cfg} (h : SameButFlavor c1 c2) (fuel n : Nat) (v : Option Arg)
    (hv : NodeArg v) : setParent c1 fuel n v = setParent c2 fuel n v := by
  funext w
  match v, hv with
  | none, _ => simp [setParent, detach_eq h]
  | some (.node p), _ => simp [setParent, detach_eq h, attach_eq h]

theorem forM'_congr {xs : List Nat} {f g : Nat → M} (h : ∀ x, f x = g x) : forM' xs f = forM' xs g := by
  have : f = g := funext h
  rw [this]

theorem delChildren_eq {c1 c2 : Cfg} (h : SameButFlavor c1 c2) (fuel n : Nat) :
    delChildren c1 fuel n = delChildren c2 fuel n := by
  funext w
  simp only [delChildren, hook_eq h, assertM_eq h]
  rw [forM'_congr (fun ch => setParent_eq h fuel ch none trivial)]

theorem checkChildren_nodes (fl1 fl2 : Flavor) :
    ∀ (seen : List Nat) (as : List Arg), NodeArgs as → checkChildren fl1 seen as = checkChildren fl2 seen as := by
  intro seen as
  induction as generalizing seen with
  | nil => intro _; rfl
  | cons a as ih =>
    intro ha
    cases a with
    | nonNode => exact absurd ha (by simp [NodeArgs])
    | node k =>
      simp only [checkChildren]
      split
      · rfl
      · exact ih _ ha

theorem nodeArgs_map (l : List Nat) : NodeArgs (l.map Arg.node) := by
  induction l with
  | nil => trivial
  | cons x xs ih => exact ih

theorem setChildrenNodes_eq {c1 c2 : Cfg} (h : SameButFlavor c1 c2) :
    ∀ (fuel n : Nat) (xs : List Nat), setChildrenNodes c1 fuel n xs = setChildrenNodes c2 fuel n xs := by
  intro fuel
  induction fuel with
  | zero => intro n xs; simp [setChildrenNodes]
  | succ fuel ih =>
    intro n xs
    funext w
    simp only [setChildrenNodes, delChildren_eq h, hook_eq h, assertM_eq h]
    rw [forM'_congr (fun x => setParent_eq h fuel x (some (.node n)) trivial)]
    have hcc := checkChildren_nodes c1.fl c2.fl [] ((w.f.children n).map Arg.node) (nodeArgs_map _)
    simp only [hcc, ih]

/-- **C18 on the model**: for calls with tree-node arguments the two flavours agree on outcome,
forest and hook log, for every fault schedule, assertion setting and fuel -/
theorem setParent_flavor (asrt : Bool) (φ : Faults) (fuel n : Nat) (v : Option Arg) (hv : NodeArg v)
    (s : Forest) :
    exec ⟨.light, asrt, φ⟩ fuel (.setParent n v) s = exec ⟨.nm, asrt, φ⟩ fuel (.setParent n v) s := by
  simp only [exec, Op.run]
  rw [setParent_eq (c1 := ⟨.light, asrt, φ⟩) (c2 := ⟨.nm, asrt, φ⟩) ⟨rfl, rfl⟩ fuel n v hv]

theorem delChildren_flavor (asrt : Bool) (φ : Faults) (fuel n : Nat) (s : Forest) :
    exec ⟨.light, asrt, φ⟩ fuel (.delChildren n) s = exec ⟨.nm, asrt, φ⟩ fuel (.delChildren n) s := by
  simp only [exec, Op.run]
  rw [delChildren_eq (c1 := ⟨.light, asrt, φ⟩) (c2 := ⟨.nm, asrt, φ⟩) ⟨rfl, rfl⟩ fuel n]

theorem setChildren_flavor (asrt : Bool) (φ : Faults) (fuel n : Nat) (as : List Arg)
    (ha : NodeArgs as) (s : Forest) :
    exec ⟨.light, asrt, φ⟩ fuel (.setChildren n (some as)) s =
      exec ⟨.nm, asrt, φ⟩ fuel (.setChildren n (some as)) s := by
  simp only [exec, Op.run, setChildren]
  rw [checkChildren_nodes .light .nm [] as ha]
  cases checkChildren Flavor.nm [] as with
  | error e => rfl
  | ok u =>
    simp only
    rw [setChildrenNodes_eq (c1 := ⟨.light, asrt, φ⟩) (c2 := ⟨.nm, asrt, φ⟩) ⟨rfl, rfl⟩]

/-- a non-iterable children argument is refused alike -/
theorem setChildren_nonIterable_flavor (asrt : Bool) (φ : Faults) (fuel n : Nat) (s : Forest) :
    exec ⟨.light, asrt, φ⟩ fuel (.setChildren n none) s = exec ⟨.nm, asrt, φ⟩ fuel (.setChildren n none) s := rfl

-- non-vacuity: the hypotheses are met by ordinary calls
example : NodeArg (some (.node 3)) ∧ NodeArg none ∧ NodeArgs [.node 1, .node 2] := ⟨trivial, trivial, trivial⟩

end Anytree.Props.C18
