import Anytree.Props.C18
/-!
# C18, whole histories — the two flavours agree call by call along every operation history

`Props/C18.lean` proves the agreement for one call from one common state.  Here: constructors, and
the lift to every history of calls with tree-node arguments (each call starting from the forest the
previous one left behind, whether it returned or raised), each call under its own fault schedule.
Every read-only query is a function of the forest, so it agrees as well.
-/
namespace Anytree.Props.C18b
open Anytree Anytree.Props.C18

/-- the call passes tree nodes only (the property's "structural calls with tree-node arguments") -/
def NodeOp : Op → Prop
  | .setParent _ v => NodeArg v
  | .setChildren _ (some xs) => NodeArgs xs
  | .setChildren _ none => True
  | .delChildren _ => True
  | .ctor p .none => NodeArg p
  | .ctor p .nonIterable => NodeArg p
  | .ctor p (.list xs) => NodeArg p ∧ NodeArgs xs

theorem setChildren_eq {c1 c2 : Cfg} (h : SameButFlavor c1 c2) (fuel n : Nat) (xs : Option (List Arg))
    (hx : ∀ l, xs = some l → NodeArgs l) : setChildren c1 fuel n xs = setChildren c2 fuel n xs := by
  cases xs with
  | none => rfl
  | some l =>
    simp only [setChildren]
    rw [checkChildren_nodes c1.fl c2.fl [] l (hx l rfl)]
    cases checkChildren c2.fl [] l with
    | error e => rfl
    | ok u => simp only [setChildrenNodes_eq h]

theorem ctor_eq {c1 c2 : Cfg} (h : SameButFlavor c1 c2) (fuel : Nat) (p : Option Arg) (cs : CtorKids)
    (hp : NodeArg p) (hcs : ∀ l, cs = .list l → NodeArgs l) : ctor c1 fuel p cs = ctor c2 fuel p cs := by
  funext w
  simp only [ctor, setParent_eq h fuel _ p hp]
  cases cs with
  | none => rfl
  | nonIterable => rfl
  | list l =>
    cases l with
    | nil => rfl
    | cons a l =>
      simp only
      rw [setChildren_eq h fuel _ (some (a :: l)) (fun l' hl => by cases hl; exact hcs _ rfl)]

/-- constructors agree -/
theorem ctor_flavor (asrt : Bool) (φ : Faults) (fuel : Nat) (p : Option Arg) (cs : CtorKids)
    (h : NodeOp (.ctor p cs)) (s : Forest) :
    exec ⟨.light, asrt, φ⟩ fuel (.ctor p cs) s = exec ⟨.nm, asrt, φ⟩ fuel (.ctor p cs) s := by
  have hp : NodeArg p := by
    cases cs with
    | none => exact h
    | nonIterable => exact h
    | list l => exact h.1
  have hcs : ∀ l, cs = .list l → NodeArgs l := by
    intro l hl; subst hl; exact h.2
  simp only [exec, Op.run]
  rw [ctor_eq (c1 := ⟨.light, asrt, φ⟩) (c2 := ⟨.nm, asrt, φ⟩) ⟨rfl, rfl⟩ fuel p cs hp hcs]

/-- any single call with node arguments: same result class, same forest, same hook log -/
theorem exec_flavor (asrt : Bool) (φ : Faults) (fuel : Nat) (op : Op) (h : NodeOp op) (s : Forest) :
    exec ⟨.light, asrt, φ⟩ fuel op s = exec ⟨.nm, asrt, φ⟩ fuel op s := by
  cases op with
  | setParent n v => exact setParent_flavor asrt φ fuel n v h s
  | setChildren n xs =>
    cases xs with
    | none => exact setChildren_nonIterable_flavor asrt φ fuel n s
    | some l => exact setChildren_flavor asrt φ fuel n l h s
  | delChildren n => exact delChildren_flavor asrt φ fuel n s
  | ctor p cs => exact ctor_flavor asrt φ fuel p cs h s

/-- a history: every call (with its own fault schedule) starts from the forest the previous call
left, whether it returned or raised -/
def history (fl : Flavor) (asrt : Bool) (fuel : Nat) : List (Op × Faults) → Forest → List Outcome
  | [], _ => []
  | (op, φ) :: rest, s =>
    let o := exec ⟨fl, asrt, φ⟩ fuel op s
    o :: history fl asrt fuel rest o.f

/-- **C18 on the model, for every operation history** -/
theorem history_flavor (asrt : Bool) (fuel : Nat) (ops : List (Op × Faults))
    (h : ∀ x ∈ ops, NodeOp x.1) (s : Forest) :
    history .light asrt fuel ops s = history .nm asrt fuel ops s := by
  induction ops generalizing s with
  | nil => rfl
  | cons x rest ih =>
    obtain ⟨op, φ⟩ := x
    have h1 : NodeOp op := h (op, φ) (List.mem_cons_self ..)
    have h2 : ∀ x ∈ rest, NodeOp x.1 := fun x hx => h x (List.mem_cons_of_mem _ hx)
    simp only [history]
    rw [exec_flavor asrt φ fuel op h1 s, ih h2]

/-- the forest after a history -/
def final (fl : Flavor) (asrt : Bool) (fuel : Nat) (ops : List (Op × Faults)) (s : Forest) : Forest :=
  ((history fl asrt fuel ops s).getLast?.map (·.f)).getD s

/-- … hence every read-only query (any function of the forest) agrees after every history -/
theorem query_flavor {β : Type} (q : Forest → β) (asrt : Bool) (fuel : Nat) (ops : List (Op × Faults))
    (h : ∀ x ∈ ops, NodeOp x.1) (s : Forest) :
    q (final .light asrt fuel ops s) = q (final .nm asrt fuel ops s) := by
  simp only [final, history_flavor asrt fuel ops h s]

/-- the hypothesis is needed: with a non-node argument the flavours are allowed to differ, and do
(NodeMixin refuses with TreeError before anything happens) -/
theorem nonNode_differs :
    ∃ s : Forest, (exec ⟨.light, false, noFaults⟩ 10 (.setParent 0 (some .nonNode)) s).res ≠
                  (exec ⟨.nm, false, noFaults⟩ 10 (.setParent 0 (some .nonNode)) s).res := by
  refine ⟨Forest.empty.newNode, ?_⟩
  simp [exec, Op.run, setParent]

/-- the same difference for the children setter -/
theorem nonNode_differs_children :
    ∃ s : Forest, (exec ⟨.light, false, noFaults⟩ 10 (.setChildren 0 (some [.nonNode])) s).res ≠
                  (exec ⟨.nm, false, noFaults⟩ 10 (.setChildren 0 (some [.nonNode])) s).res := by
  refine ⟨Forest.empty.newNode, ?_⟩
  simp [exec, Op.run, setChildren, checkChildren, M.throw]

-- non-vacuity: `NodeOp` holds for ordinary calls
example : NodeOp (.setParent 1 (some (.node 0))) ∧ NodeOp (.setParent 1 none) ∧
    NodeOp (.setChildren 0 (some [.node 1, .node 2])) ∧ NodeOp (.setChildren 0 none) ∧
    NodeOp (.delChildren 0) ∧ NodeOp (.ctor none .none) ∧ NodeOp (.ctor (some (.node 0)) .nonIterable) ∧
    NodeOp (.ctor (some (.node 0)) (.list [.node 1, .node 2])) :=
  ⟨trivial, trivial, trivial, trivial, trivial, trivial, trivial, trivial, trivial⟩

-- non-vacuity of the history theorem: a concrete history of node calls
example : ∀ x ∈ [((Op.ctor none .none), noFaults), (.ctor (some (.node 0)) .none, noFaults),
    (.setChildren 0 (some [.node 1]), noFaults), (.delChildren 0, noFaults)], NodeOp x.1 := by
  intro x hx
  simp only [List.mem_cons, List.mem_nil_iff, or_false] at hx
  rcases hx with rfl | rfl | rfl | rfl <;> trivial

end Anytree.Props.C18b
