import Anytree.Spec.Attr
namespace Anytree.Props.C19
end Anytree.Props.C19
