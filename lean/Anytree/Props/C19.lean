import Anytree.Spec.Attr
import Anytree.Lemmas.Chain
import Anytree.Lemmas.Copy
/-!
# C19 — pickle and deepcopy yield an independent, consistent, isomorphic tree (the modelled part)
-/
namespace Anytree.Props.C19
open Anytree Attr Spec Forest

/-! ## attribute probing on a half-built instance terminates exactly for the guarded names -/

/-- with the guard that `SymlinkNodeMixin.__getattr__` has (names extracted from the source),
probing `__setstate__` on an instance whose `__dict__` is still empty raises AttributeError at once -/
theorem lookup_guarded_terminates (fuel : Nat) :
    getattrRaw Generated.symlinkGetattrGuarded [] (fuel + 1) "__setstate__" = .attributeError := by
  simp [getattrRaw, dictGet, Generated.symlinkGetattrGuarded, Generated.symlinkGetattrLocal]

/-- without the guard the same probe recurses through `self.target` for ever -/
theorem lookup_unguarded_diverges (name : String)
    (hn : Generated.symlinkGetattrLocal.contains name = false) :
    ∀ fuel, getattrRaw [] [] fuel name = .diverged := by
  intro fuel
  induction fuel generalizing name with
  | zero => rfl
  | succ f ih =>
    have ht := ih "target" (by decide)
    rw [getattrRaw]
    simp only [dictGet, List.find?_nil, Option.map_none, hn, List.contains_nil, ht,
      Bool.false_eq_true, if_false]

/-- once the state is restored (`target` present) lookups of other names no longer recurse -/
theorem lookup_restored (guarded : List String) (dict : List (String × Nat)) (t : Nat)
    (ht : dictGet dict "target" = some t) (fuel : Nat) (name : String) :
    getattrRaw guarded dict (fuel + 2) name ≠ .diverged := by
  have hin : getattrRaw guarded dict (fuel + 1) "target" = .value t := by
    rw [getattrRaw]; simp only [ht]
  rw [getattrRaw]
  cases hd : dictGet dict name with
  | some v => simp
  | none =>
    simp only []
    cases h1 : Generated.symlinkGetattrLocal.contains name with
    | true => simp
    | false =>
      cases h2 : guarded.contains name with
      | true => simp
      | false => simp [hin]

/-! ## what a deep copy reaches -/

/-- everything reached is connected to the entry node through parent / children / target references -/
inductive Conn (s : Forest) (tg : Nat → Option Nat) (n : Nat) : Nat → Prop
  | refl : Conn s tg n n
  | parent {x p} : Conn s tg n x → s.parent x = some p → Conn s tg n p
  | child {x c} : Conn s tg n x → c ∈ s.children x → Conn s tg n c
  | target {x t} : Conn s tg n x → tg x = some t → Conn s tg n t

theorem reach_sound (s : Forest) (tg : Nat → Option Nat) (n : Nat) :
    ∀ x ∈ reach s tg n, Conn s tg n x := by
  intro x hx
  refine reachF_inv (Conn s tg n) (fun _ _ h e => h.parent e) (fun _ _ h e => h.child e)
    (fun _ _ h e => h.target e) _ [n] [] ?_ ?_ x hx
  · intro y hy; simp only [List.mem_singleton] at hy; subst hy; exact Conn.refl
  · intro y hy; cases hy

/-- the traversal never lists an object twice -/
theorem reach_nodup (s : Forest) (tg : Nat → Option Nat) (n : Nat) : (reach s tg n).Nodup := by
  exact reachF_nodup _ _ _ List.nodup_nil

/-- completeness of the traversal: in a consistent forest, with the entry node and all link targets
existing objects, the fuel `(n+1)*(n+3)` suffices — everything connected to the entry node is listed -/
theorem reach_complete (s : Forest) (h : Inv s) (tg : Nat → Option Nat)
    (htg : ∀ x, x < s.n → ∀ t, tg x = some t → t < s.n) (n : Nat) (hn : n < s.n) :
    ∀ x, Conn s tg n x → x ∈ reach s tg n := by
  obtain ⟨h0, hcl⟩ := reach_closed h htg hn
  intro x hc
  induction hc with
  | refl => exact h0
  | @parent x p _ hp ih =>
    exact hcl x ih p (by simp [nb, hp])
  | @child x c _ hcx ih =>
    exact hcl x ih c (by simp [nb, hcx])
  | @target x t _ ht ih =>
    exact hcl x ih t (by simp [nb, ht])

/-- the traversal lists exactly the objects connected to the entry node -/
theorem mem_reach_iff (s : Forest) (h : Inv s) (tg : Nat → Option Nat)
    (htg : ∀ x, x < s.n → ∀ t, tg x = some t → t < s.n) (n : Nat) (hn : n < s.n) (x : Nat) :
    x ∈ reach s tg n ↔ Conn s tg n x :=
  ⟨reach_sound s tg n x, reach_complete s h tg htg n hn x⟩

/-- in a consistent forest, a node connected to `n` by parent/children references alone lies in the
tree of `n`: it has the same root -/
theorem same_tree_of_conn (s : Forest) (h : Inv s) (n x : Nat)
    (hc : Conn s (fun _ => none) n x) :
    ∃ r, (∃ k, s.up k n = some r) ∧ (∃ k, s.up k x = some r) ∧ s.parent r = none := by
  induction hc with
  | refl =>
    obtain ⟨r, k, hk, hr⟩ := h.has_root n
    exact ⟨r, ⟨k, hk⟩, ⟨k, hk⟩, hr⟩
  | @parent x p _ hp ih =>
    obtain ⟨r, hn, ⟨k, hk⟩, hr⟩ := ih
    refine ⟨r, hn, ?_, hr⟩
    cases k with
    | zero =>
      simp only [up, Option.some.injEq] at hk
      subst hk; rw [hr] at hp; cases hp
    | succ k => rw [up_succ_of_parent hp] at hk; exact ⟨k, hk⟩
  | @child x c _ hcx ih =>
    obtain ⟨r, hn, ⟨k, hk⟩, hr⟩ := ih
    have hp : s.parent c = some x := (h.bidir c x).mpr hcx
    exact ⟨r, hn, ⟨k + 1, by rw [up_succ_of_parent hp]; exact hk⟩, hr⟩
  | target _ ht => cases ht

end Anytree.Props.C19
