import Anytree.Props.C19
import Anytree.Lemmas.CopyIso
/-!
# C19b — the graph-theoretic content of `copy.deepcopy` / `pickle` round trips

CPython's copier is trusted to rebuild exactly the objects reachable from the entry node, with fresh
identities and with every reference redirected to the corresponding rebuilt object.  As a model
function this is `copyForest s R` / `copyTargets tg R` with `R = reach s tg e` (`Lemmas/CopyIso`):
the rebuilt object number `i` is the copy of `R[i]`.

Proved here, for a consistent original (`Inv s`), an existing entry node, and link targets that exist:

* the copy is a consistent forest (`copy_inv`) over exactly `R.length` fresh objects (`copy_size`),
  and the copy of the entry node is object `0` (`copy_entry`);
* `i ↦ R[i]` is an isomorphism onto the reached part of the original: parents (`copy_parent_iff`,
  `copy_parent_none_iff`), ordered children (`copy_children_eq`), link targets (`copy_target_iff`,
  `copy_target_total`), parent chains and roots (`copy_root`);
* the unfolded trees agree (`copy_shape`, `copy_shape_root`);
* the copy contains the *whole* tree of the entry node (`same_tree_mem_reach`), and, without
  symlinks, nothing else (`mem_reach_iff_same_tree`);
* the copy only depends on the reached part of the original (`copy_congr`): later changes to other
  objects of the original are invisible in it.
-/
namespace Anytree.Props.C19b
open Anytree Attr Forest
open Anytree.Props.C19

variable {s : Forest} {tg : Nat → Option Nat} {e : Nat}

/-! ## the reached set -/

/-- every reached object exists -/
theorem reach_lt (h : Inv s) (htg : ∀ x, x < s.n → ∀ t, tg x = some t → t < s.n) (he : e < s.n) :
    ∀ x ∈ reach s tg e, x < s.n := by
  intro x hx
  have hPc : ∀ x c, x < s.n → c ∈ s.children x → c < s.n :=
    fun x c _ hc => (h.lt_of_parent ((h.bidir c x).mpr hc)).1
  refine reachF_inv (s := s) (tg := tg) (fun y => y < s.n)
    (fun x p _ hp => (h.lt_of_parent hp).2) hPc (fun x t hx ht => htg x hx t ht)
    _ [e] [] ?_ ?_ x hx
  · intro y hy; simp only [List.mem_singleton] at hy; subst hy; exact he
  · intro y hy; cases hy

theorem reach_closed_parent (h : Inv s) (htg : ∀ x, x < s.n → ∀ t, tg x = some t → t < s.n)
    (he : e < s.n) : ∀ x p, x ∈ reach s tg e → s.parent x = some p → p ∈ reach s tg e :=
  fun x p hx hp => (reach_closed h htg he).2 x hx p (by simp [nb, hp])

theorem reach_closed_children (h : Inv s) (htg : ∀ x, x < s.n → ∀ t, tg x = some t → t < s.n)
    (he : e < s.n) : ∀ x c, x ∈ reach s tg e → c ∈ s.children x → c ∈ reach s tg e :=
  fun x c hx hc => (reach_closed h htg he).2 x hx c (by simp [nb, hc])

theorem reach_closed_target (h : Inv s) (htg : ∀ x, x < s.n → ∀ t, tg x = some t → t < s.n)
    (he : e < s.n) : ∀ x t, x ∈ reach s tg e → tg x = some t → t ∈ reach s tg e :=
  fun x t hx ht => (reach_closed h htg he).2 x hx t (by simp [nb, ht])

/-! ## 2. the copy is consistent -/

/-- C01 for an arbitrary duplicate-free selection `R` (the hypotheses "members exist" and "closed
under parent / children" of the task statement are not needed for consistency) -/
theorem copyForest_inv_of_closed {R : List Nat} (h : Inv s) (hnd : R.Nodup)
    (_hlt : ∀ x ∈ R, x < s.n)
    (_hclp : ∀ x p, x ∈ R → s.parent x = some p → p ∈ R)
    (_hclc : ∀ x c, x ∈ R → c ∈ s.children x → c ∈ R) : Inv (copyForest s R) :=
  copyForest_inv h hnd

/-- the deep copy of a consistent tree is consistent -/
theorem copy_inv (h : Inv s) : Inv (copyForest s (reach s tg e)) :=
  copyForest_inv h (reach_nodup s tg e)

/-- the copy consists of exactly one fresh object per reached object -/
theorem copy_size : (copyForest s (reach s tg e)).n = (reach s tg e).length := rfl

/-- all references of the copy stay inside the copy: it shares no object with anything else -/
theorem copy_refs_inside :
    (∀ i j, (copyForest s (reach s tg e)).parent i = some j →
        i < (reach s tg e).length ∧ j < (reach s tg e).length) ∧
    (∀ i j, j ∈ (copyForest s (reach s tg e)).children i →
        i < (reach s tg e).length ∧ j < (reach s tg e).length) ∧
    (∀ i j, copyTargets tg (reach s tg e) i = some j →
        i < (reach s tg e).length ∧ j < (reach s tg e).length) :=
  ⟨fun _ _ => copy_parent_lt, fun _ _ => copy_child_lt, fun _ _ => copy_target_lt⟩

/-! ## 3. `i ↦ R[i]` is an isomorphism -/

/-- the object returned by the copier (the copy of the entry node) is object `0` -/
theorem copy_entry : pos (reach s tg e) e = some 0 ∧ (reach s tg e)[0]? = some e :=
  ⟨pos_reach_entry s tg e, reach_getElem?_zero s tg e⟩

/-- `pos R` and `i ↦ R[i]` are mutually inverse bijections between the reached objects and the
fresh identities -/
theorem copy_bijection (x i : Nat) :
    pos (reach s tg e) x = some i ↔ (reach s tg e)[i]? = some x :=
  pos_eq_some_iff (reach_nodup s tg e)

theorem copy_covers (x : Nat) : x ∈ reach s tg e ↔ ∃ i : Nat, (reach s tg e)[i]? = some x := by
  constructor
  · intro hx; obtain ⟨i, _, hi⟩ := pos_of_mem hx; exact ⟨i, hi⟩
  · rintro ⟨i, hi⟩; exact List.mem_of_getElem? hi

/-- parents correspond -/
theorem copy_parent_iff {i x j : Nat} (hi : (reach s tg e)[i]? = some x) :
    (copyForest s (reach s tg e)).parent i = some j ↔
      ∃ p, s.parent x = some p ∧ (reach s tg e)[j]? = some p :=
  copy_parent_eq_some_iff (reach_nodup s tg e) hi

theorem copy_parent_none_iff (h : Inv s) (htg : ∀ x, x < s.n → ∀ t, tg x = some t → t < s.n)
    (he : e < s.n) {i x : Nat} (hi : (reach s tg e)[i]? = some x) :
    (copyForest s (reach s tg e)).parent i = none ↔ s.parent x = none :=
  copy_parent_eq_none_iff (reach_closed_parent h htg he) hi

/-- ordered children correspond -/
theorem copy_children_eq (h : Inv s) (htg : ∀ x, x < s.n → ∀ t, tg x = some t → t < s.n)
    (he : e < s.n) {i x : Nat} (hi : (reach s tg e)[i]? = some x) :
    ((copyForest s (reach s tg e)).children i).map (fun j => (reach s tg e)[j]!) = s.children x :=
  copy_children_map (reach_closed_children h htg he) hi

theorem copy_children_eq? (h : Inv s) (htg : ∀ x, x < s.n → ∀ t, tg x = some t → t < s.n)
    (he : e < s.n) {i x : Nat} (hi : (reach s tg e)[i]? = some x) :
    ((copyForest s (reach s tg e)).children i).map (fun j => (reach s tg e)[j]?) =
      (s.children x).map some :=
  copy_children_map? (reach_closed_children h htg he) hi

/-- a link of the copy points at the copy of the original link's target -/
theorem copy_target_iff {i x j : Nat} (hi : (reach s tg e)[i]? = some x) :
    copyTargets tg (reach s tg e) i = some j ↔
      ∃ t, tg x = some t ∧ (reach s tg e)[j]? = some t :=
  copy_target_eq_some_iff (reach_nodup s tg e) hi

/-- … and no link loses its target -/
theorem copy_target_total (h : Inv s) (htg : ∀ x, x < s.n → ∀ t, tg x = some t → t < s.n)
    (he : e < s.n) {i x t : Nat} (hi : (reach s tg e)[i]? = some x) (ht : tg x = some t) :
    ∃ j, copyTargets tg (reach s tg e) i = some j ∧ (reach s tg e)[j]? = some t := by
  obtain ⟨j, hj, hjt⟩ := pos_of_mem (reach_closed_target h htg he x t (List.mem_of_getElem? hi) ht)
  exact ⟨j, (copy_target_iff hi).mpr ⟨t, ht, hjt⟩, hjt⟩

theorem copy_target_none_iff (h : Inv s) (htg : ∀ x, x < s.n → ∀ t, tg x = some t → t < s.n)
    (he : e < s.n) {i x : Nat} (hi : (reach s tg e)[i]? = some x) :
    copyTargets tg (reach s tg e) i = none ↔ tg x = none :=
  copy_target_eq_none_iff (reach_closed_target h htg he) hi

/-- parent chains correspond -/
theorem copy_up_eq (h : Inv s) (htg : ∀ x, x < s.n → ∀ t, tg x = some t → t < s.n)
    (he : e < s.n) (k : Nat) {i x : Nat} (hi : (reach s tg e)[i]? = some x) :
    (copyForest s (reach s tg e)).up k i = (s.up k x).bind (pos (reach s tg e)) :=
  copy_up (reach_nodup s tg e) (reach_closed_parent h htg he) k hi

/-! ## 5. the copy contains the whole tree of the entry node -/

/-- going up from a connected node stays connected -/
theorem conn_up {y : Nat} (hy : Conn s tg e y) : ∀ (k : Nat) {r : Nat}, s.up k y = some r →
    Conn s tg e r := by
  intro k
  induction k generalizing y with
  | zero => intro r hk; simp only [up, Option.some.injEq] at hk; subst hk; exact hy
  | succ k ih =>
    intro r hk
    cases hp : s.parent y with
    | none => simp [up, hp] at hk
    | some p => rw [up_succ_of_parent hp] at hk; exact ih (hy.parent hp) hk

/-- going down from a connected node stays connected -/
theorem conn_down (h : Inv s) {r : Nat} (hr : Conn s tg e r) : ∀ (k : Nat) {x : Nat},
    s.up k x = some r → Conn s tg e x := by
  intro k
  induction k with
  | zero => intro x hk; simp only [up, Option.some.injEq] at hk; subst hk; exact hr
  | succ k ih =>
    intro x hk
    cases hp : s.parent x with
    | none => simp [up, hp] at hk
    | some p =>
      rw [up_succ_of_parent hp] at hk
      exact (ih hk).child ((h.bidir x p).mp hp)

/-- closure: every node of the entry node's tree is copied -/
theorem same_tree_mem_reach (h : Inv s) (htg : ∀ x, x < s.n → ∀ t, tg x = some t → t < s.n)
    (he : e < s.n) {x : Nat} (hx : ∃ r k k', s.up k e = some r ∧ s.up k' x = some r) :
    x ∈ reach s tg e := by
  obtain ⟨r, k, k', hke, hkx⟩ := hx
  exact reach_complete s h tg htg e he x (conn_down h (conn_up Conn.refl k hke) k' hkx)

/-- minimality: without symlinks the copy contains the entry node's tree and nothing else -/
theorem mem_reach_iff_same_tree (h : Inv s) (he : e < s.n) (x : Nat) :
    x ∈ reach s (fun _ => none) e ↔ ∃ r k k', s.up k e = some r ∧ s.up k' x = some r := by
  constructor
  · intro hx
    obtain ⟨r, ⟨k, hk⟩, ⟨k', hk'⟩, _⟩ :=
      same_tree_of_conn s h e x (reach_sound s _ e x hx)
    exact ⟨r, k, k', hk, hk'⟩
  · exact same_tree_mem_reach h (fun _ _ _ ht => by cases ht) he

/-- minimality in general: whatever is copied is connected to the entry node by references -/
theorem copy_only_connected {i x : Nat} (hi : (reach s tg e)[i]? = some x) : Conn s tg e x :=
  reach_sound s tg e x (List.mem_of_getElem? hi)

/-! ## 4. the unfolded trees agree -/

/-- for every copied node: the tree below the copy, read back through `i ↦ R[i]`, is the tree below
the original -/
theorem copy_shape (h : Inv s) (htg : ∀ x, x < s.n → ∀ t, tg x = some t → t < s.n)
    (he : e < s.n) (fuel : Nat) {i x : Nat} (hi : (reach s tg e)[i]? = some x) :
    ((copyForest s (reach s tg e)).toTree fuel i).map (fun j => (reach s tg e)[j]!) =
      s.toTree fuel x :=
  copy_toTree (reach_closed_children h htg he) fuel hi

/-- in particular below the returned object -/
theorem copy_shape_entry (h : Inv s) (htg : ∀ x, x < s.n → ∀ t, tg x = some t → t < s.n)
    (he : e < s.n) (fuel : Nat) :
    ((copyForest s (reach s tg e)).toTree fuel 0).map (fun j => (reach s tg e)[j]!) =
      s.toTree fuel e :=
  copy_shape h htg he fuel (reach_getElem?_zero s tg e)

/-- the root of the copied entry node is the copy of the entry node's root, at the same height -/
theorem copy_root (h : Inv s) (htg : ∀ x, x < s.n → ∀ t, tg x = some t → t < s.n)
    (he : e < s.n) {k r : Nat} (hk : s.up k e = some r) (hr : s.parent r = none) :
    ∃ j, (copyForest s (reach s tg e)).up k 0 = some j ∧ (reach s tg e)[j]? = some r ∧
      (copyForest s (reach s tg e)).parent j = none := by
  have h0 := copy_up_eq h htg he k (reach_getElem?_zero s tg e)
  rw [hk] at h0
  have hrR : r ∈ reach s tg e :=
    reach_complete s h tg htg e he r (conn_up Conn.refl k hk)
  obtain ⟨j, hj, hjr⟩ := pos_of_mem hrR
  exact ⟨j, by rw [h0]; exact hj, hjr, (copy_parent_none_iff h htg he hjr).mpr hr⟩

/-- the *whole* tree of the copy (from its root) is the whole tree of the original -/
theorem copy_shape_root (h : Inv s) (htg : ∀ x, x < s.n → ∀ t, tg x = some t → t < s.n)
    (he : e < s.n) {k r : Nat} (hk : s.up k e = some r) (hr : s.parent r = none) (fuel : Nat) :
    ∃ j, (copyForest s (reach s tg e)).up k 0 = some j ∧
      (copyForest s (reach s tg e)).parent j = none ∧
      ((copyForest s (reach s tg e)).toTree fuel j).map (fun j => (reach s tg e)[j]!) =
        s.toTree fuel r := by
  obtain ⟨j, hj, hjr, hjp⟩ := copy_root h htg he hk hr
  exact ⟨j, hj, hjp, copy_shape h htg he fuel hjr⟩

/-! ## 5'. independence -/

/-- the copy is determined by the reached part of the original alone: a forest that agrees with `s`
on the reached objects (e.g. `s` after any change to objects outside the entry node's component)
has the same copy -/
theorem copy_congr {s' : Forest} {R : List Nat}
    (hp : ∀ x ∈ R, s'.parent x = s.parent x) (hc : ∀ x ∈ R, s'.children x = s.children x) :
    copyForest s' R = copyForest s R := by
  unfold copyForest
  congr 1
  · funext i
    cases hi : R[i]? with
    | none => rfl
    | some x => simp [hp x (List.mem_of_getElem? hi)]
  · funext i
    cases hi : R[i]? with
    | none => rfl
    | some x => simp [hc x (List.mem_of_getElem? hi)]

theorem copyTargets_congr {tg' : Nat → Option Nat} {R : List Nat}
    (ht : ∀ x ∈ R, tg' x = tg x) : copyTargets tg' R = copyTargets tg R := by
  funext i
  unfold copyTargets
  cases hi : R[i]? with
  | none => rfl
  | some x => simp [ht x (List.mem_of_getElem? hi)]

/-! ## summary -/

/-- C19, graph-theoretic content, in one statement: copying the reached set `R = reach s tg e` of a
consistent forest with fresh identities yields a consistent forest `c` of `R.length` objects whose
object `0` is the copy of the entry node, such that `i ↦ R[i]` preserves and reflects parents,
ordered children and link targets, maps unfolded trees to unfolded trees, and whose image is the
whole tree of the entry node (plus whatever is reachable through link targets). -/
theorem deepcopy_correct (h : Inv s) (htg : ∀ x, x < s.n → ∀ t, tg x = some t → t < s.n)
    (he : e < s.n) :
    let R := reach s tg e
    let c := copyForest s R
    let ct := copyTargets tg R
    Inv c ∧ c.n = R.length ∧ R.Nodup ∧ R[0]? = some e ∧
    (∀ i x, R[i]? = some x →
      (∀ j, c.parent i = some j ↔ ∃ p, s.parent x = some p ∧ R[j]? = some p) ∧
      (c.parent i = none ↔ s.parent x = none) ∧
      (c.children i).map (fun j => R[j]!) = s.children x ∧
      (∀ j, ct i = some j ↔ ∃ t, tg x = some t ∧ R[j]? = some t) ∧
      (ct i = none ↔ tg x = none) ∧
      (∀ fuel, (c.toTree fuel i).map (fun j => R[j]!) = s.toTree fuel x)) ∧
    (∀ x, (∃ r k k', s.up k e = some r ∧ s.up k' x = some r) → x ∈ R) ∧
    (∀ x, x ∈ R → Conn s tg e x ∧ x < s.n) := by
  refine ⟨copy_inv h, rfl, reach_nodup s tg e, reach_getElem?_zero s tg e, ?_, ?_, ?_⟩
  · intro i x hi
    exact ⟨fun j => copy_parent_iff hi, copy_parent_none_iff h htg he hi,
      copy_children_eq h htg he hi, fun j => copy_target_iff hi,
      copy_target_none_iff h htg he hi, fun fuel => copy_shape h htg he fuel hi⟩
  · intro x hx; exact same_tree_mem_reach h htg he hx
  · intro x hx; exact ⟨reach_sound s tg e x hx, reach_lt h htg he x hx⟩

end Anytree.Props.C19b
