import Anytree.Spec.Attr
import Anytree.Lemmas.Attr
/-!
# C20 — a symlink node has its own tree position and forwards the rest to its target
-/
namespace Anytree.Props.C20
open Anytree Attr Spec
variable {V : Type}

/-- an instance-data name that a link forwards: not one of the names listed in `__setattr__`,
`__getattr__` (all extracted from the source) -/
def Forwarded (name : String) : Prop := isLocal name = false

/-- **reads forward**: on a link, an attribute that is not in the link's own `__dict__` is read from
the target (one step) -/
theorem link_read_step (h : Heap V) (fuel i t : Nat) (name : String) (ht : (h i).target = some t)
    (hn : Forwarded name) (hown : dictGet (h i).dict name = none) :
    getattr h (fuel + 1) i name = getattr h fuel t name := by
  obtain ⟨_, h2, h3⟩ := isLocal_false hn
  simp only [getattr, hown, ht]
  rw [if_neg (by rw [h2]; simp), if_neg (by rw [h3]; simp)]

/-- **writes forward**: an assignment on a link of a forwarded name is the assignment on its target -/
theorem link_write_step (h : Heap V) (fuel i t : Nat) (name : String) (v : V)
    (ht : (h i).target = some t) (hn : Forwarded name) :
    setattr h (fuel + 1) i name v = setattr h fuel t name v :=
  setattr_succ_fwd h fuel i t name v ht (isLocal_false hn).1

/-- a link's own dictionary holds local names only: kept by every assignment -/
theorem setattr_preserves_clean (h h' : Heap V) (fuel i : Nat) (name : String) (v : V)
    (hc : LinkClean h) (hs : setattr h fuel i name v = some h') : LinkClean h' := by
  induction fuel generalizing i with
  | zero => simp [setattr_zero] at hs
  | succ n ih =>
    cases ht : (h i).target with
    | none =>
      rw [setattr_succ_plain h n i name v ht] at hs
      injection hs with hs; subst hs
      exact linkClean_upd h hc i name v (fun hne => absurd ht hne)
    | some t =>
      cases hl : Generated.symlinkSetattrLocal.contains name with
      | true =>
        rw [setattr_succ_local h n i t name v ht hl] at hs
        injection hs with hs; subst hs
        exact linkClean_upd h hc i name v (fun _ => hl)
      | false =>
        rw [setattr_succ_fwd h n i t name v ht hl] at hs
        exact ih t hs

/-- assignments never change what an object links to -/
theorem setattr_target (h h' : Heap V) (fuel i : Nat) (name : String) (v : V)
    (hs : setattr h fuel i name v = some h') : ∀ j, (h' j).target = (h j).target := by
  induction fuel generalizing i with
  | zero => simp [setattr_zero] at hs
  | succ n ih =>
    cases ht : (h i).target with
    | none =>
      rw [setattr_succ_plain h n i name v ht] at hs
      injection hs with hs; subst hs
      exact upd_target h i name v
    | some t =>
      cases hl : Generated.symlinkSetattrLocal.contains name with
      | true =>
        rw [setattr_succ_local h n i t name v ht hl] at hs
        injection hs with hs; subst hs
        exact upd_target h i name v
      | false =>
        rw [setattr_succ_fwd h n i t name v ht hl] at hs
        exact ih t hs

/-- **mirror = specification for reads**: with clean links, reading a forwarded name through any
chain of links gives exactly what the real target holds (value or AttributeError) -/
theorem getattr_eq_readS (h : Heap V) (hc : LinkClean h) (fuel i : Nat) (name : String)
    (hn : Forwarded name) : getattr h fuel i name = readS h fuel i name := by
  induction fuel generalizing i with
  | zero => rfl
  | succ n ih =>
    cases ht : (h i).target with
    | none =>
      simp only [getattr, readS, resolve, ht]
      cases dictGet (h i).dict name <;> rfl
    | some t =>
      have hown : dictGet (h i).dict name = none :=
        dictGet_none_of_keys _ _ name (hc i (by rw [ht]; simp)) (isLocal_false hn).1
      rw [link_read_step h n i t name ht hn hown, ih t]
      simp only [readS, resolve, ht]

/-- an assignment through any chain of links is stored in the real target's dictionary, and nothing
else changes -/
theorem setattr_stores_on_target (h h' : Heap V) (fuel i p : Nat) (name : String) (v : V)
    (hn : Forwarded name) (hr : resolve h fuel i = some p) (hs : setattr h fuel i name v = some h') :
    (h' p).dict = dictPut (h p).dict name v ∧ ∀ j, j ≠ p → h' j = h j := by
  induction fuel generalizing i with
  | zero => simp [setattr_zero] at hs
  | succ n ih =>
    cases ht : (h i).target with
    | none =>
      rw [setattr_succ_plain h n i name v ht] at hs
      injection hs with hs; subst hs
      simp only [resolve, ht] at hr
      injection hr with hr; subst hr
      exact ⟨upd_self_dict h i name v, fun j hj => upd_other h i name v j hj⟩
    | some t =>
      rw [link_write_step h n i t name v ht hn] at hs
      simp only [resolve, ht] at hr
      exact ih t hr hs

/-- **write then read, in both directions**: after `setattr(x, name, v)` every object whose chain of
links ends in the same real target as `x`'s reads `v` -/
theorem write_then_read (h h' : Heap V) (hc : LinkClean h) (fuel i j p : Nat) (name : String) (v : V)
    (hn : Forwarded name) (hri : resolve h fuel i = some p) (hrj : resolve h fuel j = some p)
    (hs : setattr h fuel i name v = some h') : getattr h' fuel j name = .value v := by
  have hc' := setattr_preserves_clean h h' fuel i name v hc hs
  have htg := setattr_target h h' fuel i name v hs
  have hst := (setattr_stores_on_target h h' fuel i p name v hn hri hs).1
  rw [getattr_eq_readS h' hc' fuel j name hn]
  simp only [readS, resolve_congr h h' htg fuel j, hrj, hst, dictGet_dictPut_self]

/-- reading an attribute the target lacks raises AttributeError -/
theorem missing_attr_error (h : Heap V) (hc : LinkClean h) (fuel i p : Nat) (name : String)
    (hn : Forwarded name) (hr : resolve h fuel i = some p) (hm : dictGet (h p).dict name = none) :
    getattr h fuel i name = .attributeError := by
  rw [getattr_eq_readS h hc fuel i name hn]
  simp only [readS, hr, hm]

/-- the repaired constructor keeps links clean (keyword attributes are forwarded, not stored on an
intermediate link). No freshness assumption on `i` is needed: the constructor overwrites object `i`
with an empty dictionary, which is clean. -/
theorem ctorLink_clean (h h' : Heap V) (hc : LinkClean h) (fuel i t : Nat) (kw : List (String × V))
    (hs : ctorLink false h fuel i t kw = some h') : LinkClean h' := by
  have hfold : ∀ (kw : List (String × V)) (h0 h' : Heap V), LinkClean h0 →
      kw.foldlM (fun hh e => setattr hh fuel t e.1 e.2) h0 = some h' → LinkClean h' := by
    intro kw
    induction kw with
    | nil =>
      intro h0 h' hc0 hs
      simp only [List.foldlM_nil] at hs
      injection hs with hs; subst hs; exact hc0
    | cons e kw ih =>
      intro h0 h' hc0 hs
      rw [List.foldlM_cons] at hs
      cases h1 : setattr h0 fuel t e.1 e.2 with
      | none => rw [h1] at hs; simp at hs
      | some h1' =>
        rw [h1] at hs
        exact ih h1' h' (setattr_preserves_clean h0 h1' fuel t e.1 e.2 hc0 h1) hs
  have hc0 : LinkClean (fun j => if j = i then (⟨[], some t⟩ : Obj V) else h j) := by
    intro j hj e he
    by_cases hji : j = i
    · simp [hji] at he
    · simp only [hji, if_false] at hj he
      exact hc j hj e he
  unfold ctorLink at hs
  simp only [Bool.false_eq_true, if_false] at hs
  exact hfold kw _ h' hc0 hs

/-- finding D7 (before the repair): a keyword attribute given to a link-to-a-link was stored on the
intermediate link and then shadowed later writes — kernel-checked witness -/
def hD7 : Heap Nat := fun j => if j = 1 then ⟨[], some 0⟩ else ⟨[], none⟩      -- 0 plain, 1 → 0
theorem D7_witness :
    (match ctorLink true hD7 8 2 1 [("foo", 1)] with
     | some h => (match setattr h 8 1 "foo" 5 with
        | some h' => getattr h' 8 1 "foo" = .value 1 ∧ getattr h' 8 0 "foo" = .value 5
        | none => False)
     | none => False) ∧
    (match ctorLink false hD7 8 2 1 [("foo", 1)] with
     | some h => (match setattr h 8 1 "foo" 5 with
        | some h' => getattr h' 8 1 "foo" = .value 5 ∧ getattr h' 8 2 "foo" = .value 5
        | none => False)
     | none => False) := by
  refine ⟨?_, ?_⟩
  · show _ ∧ _
    decide
  · show _ ∧ _
    decide

/-- the name lists agree: everything `__getattr__` treats as local is also kept local by
`__setattr__` (extracted from the source on every run) -/
theorem bookkeeping_names_agree :
    ∀ n ∈ Generated.symlinkGetattrLocal, Generated.symlinkSetattrLocal.contains n = true := by
  decide

/-- structural calls and attribute operations act on disjoint components of the state -/
structure SState (V : Type) where
  forest : Forest
  heap : Heap V
def structuralStep (c : Cfg) (fuel : Nat) (op : Op) (s : SState V) : SState V :=
  { s with forest := (exec c fuel op s.forest).f }
def attrStep (fuel i : Nat) (name : String) (v : V) (s : SState V) : SState V :=
  { s with heap := (setattr s.heap fuel i name v).getD s.heap }
theorem structure_independent (c : Cfg) (fuel : Nat) (op : Op) (i : Nat) (name : String) (v : V)
    (s : SState V) :
    (structuralStep c fuel op s).heap = s.heap ∧ (attrStep fuel i name v s).forest = s.forest ∧
    structuralStep c fuel op (attrStep fuel i name v s) = attrStep fuel i name v (structuralStep c fuel op s) :=
  ⟨rfl, rfl, rfl⟩

end Anytree.Props.C20
