import Anytree.Spec.Attr
namespace Anytree.Props.C20
end Anytree.Props.C20
