import Anytree.Model.AttrClass
import Anytree.Props.C20
/-!
# C20 — class-level attributes of link subclasses (`Model/AttrClass.lean`)

The class-aware read is a conservative extension of the attribute-store model: without links of a user class it is `getattr`
(for a name that links do not keep for themselves), a link of the user class answers with its class value, and a plain link
only forwards.
-/
namespace Anytree.Props.C20b
open Anytree Attr

/-- a link of the user class answers itself -/
theorem getClassAware_user (h : Heap String) (isUser : Nat → Bool) (cv : String) (fuel i : Nat) (name : String)
    (hu : isUser i = true) : getClassAware h isUser cv (fuel + 1) i name = .value cv := by
  simp only [getClassAware, hu, if_true]

/-- a plain link forwards to its target -/
theorem getClassAware_forward (h : Heap String) (isUser : Nat → Bool) (cv : String) (fuel i t : Nat) (name : String)
    (hu : isUser i = false) (ht : (h i).target = some t) :
    getClassAware h isUser cv (fuel + 1) i name = getClassAware h isUser cv fuel t name := by
  simp only [getClassAware, hu, ht, Bool.false_eq_true, if_false]

/-- a plain node answers from its own dictionary -/
theorem getClassAware_node (h : Heap String) (isUser : Nat → Bool) (cv : String) (fuel i : Nat) (name : String)
    (hu : isUser i = false) (ht : (h i).target = none) :
    getClassAware h isUser cv (fuel + 1) i name =
      (match dictGet (h i).dict name with | some v => .value v | none => .attributeError) := by
  simp only [getClassAware, hu, ht, Bool.false_eq_true, if_false]
  cases dictGet (h i).dict name <;> rfl

/-- **conservative extension**: without links of a user class, for a name that links neither keep for themselves nor guard,
and on a heap whose links hold no such entry (links hold local names only: C20), the class-aware read is the model's `getattr` -/
theorem getClassAware_eq_getattr (h : Heap String) (cv : String) (name : String)
    (hl : Generated.symlinkGetattrLocal.contains name = false)
    (hg : Generated.symlinkGetattrGuarded.contains name = false)
    (hclean : ∀ i t, (h i).target = some t → dictGet (h i).dict name = none) :
    ∀ (fuel i : Nat), getClassAware h (fun _ => false) cv fuel i name = getattr h fuel i name := by
  intro fuel
  induction fuel with
  | zero => intro i; rfl
  | succ k ih =>
    intro i
    cases ht : (h i).target with
    | none =>
      simp only [getClassAware, getattr, ht, Bool.false_eq_true, if_false]
      cases dictGet (h i).dict name <;> rfl
    | some t =>
      have hown := hclean i t ht
      simp only [getClassAware, getattr, ht, hown, hl, hg, Bool.false_eq_true, if_false]
      exact ih t

/-- the answer does not depend on the fuel once it suffices -/
theorem getClassAware_fuel_mono (h : Heap String) (isUser : Nat → Bool) (cv : String) (name : String) :
    ∀ (fuel i : Nat), getClassAware h isUser cv fuel i name ≠ .diverged →
      getClassAware h isUser cv (fuel + 1) i name = getClassAware h isUser cv fuel i name := by
  intro fuel
  induction fuel with
  | zero => intro i hne; exact absurd rfl hne
  | succ k ih =>
    intro i hne
    cases hu : isUser i with
    | true => simp only [getClassAware, hu, if_true]
    | false =>
      cases ht : (h i).target with
      | none => simp only [getClassAware, hu, ht, Bool.false_eq_true, if_false]
      | some t =>
        rw [getClassAware_forward h isUser cv (k + 1) i t name hu ht,
          getClassAware_forward h isUser cv k i t name hu ht]
        rw [getClassAware_forward h isUser cv k i t name hu ht] at hne
        exact ih t hne

end Anytree.Props.C20b
