import Anytree.Model.Attr
import Anytree.Model.Bridge
/-! # Specification side of symlink attribute forwarding (C20) and of the copied object graph (C19) -/
namespace Anytree
namespace Spec
open Attr
variable {V : Type}

/-- the real (non-link) object a chain of links ends in -/
def resolve (h : Heap V) : Nat → Nat → Option Nat
  | 0, _ => none
  | fuel+1, i => match (h i).target with
    | none => some i
    | some t => resolve h fuel t

/-- names a link keeps for itself (never forwarded) -/
def isLocal (name : String) : Bool :=
  Generated.symlinkSetattrLocal.contains name || Generated.symlinkGetattrLocal.contains name ||
  Generated.symlinkGetattrGuarded.contains name

/-- a link's own `__dict__` holds local names only -/
def LinkClean (h : Heap V) : Prop :=
  ∀ i, (h i).target ≠ none → ∀ e ∈ (h i).dict, Generated.symlinkSetattrLocal.contains e.1 = true

/-- reading an instance-data name through any chain of links = reading it on the real target -/
def readS (h : Heap V) (fuel i : Nat) (name : String) : Res V :=
  match resolve h fuel i with
  | none => .diverged
  | some p => match dictGet (h p).dict name with
    | some v => .value v
    | none => .attributeError

/-- root of the tree containing `x` -/
def rootOf (s : Forest) : Nat → Nat → Nat
  | 0, x => x
  | fuel+1, x => match s.parent x with
    | none => x
    | some p => rootOf s fuel p

/-- all nodes of the tree containing `x`, pre-order -/
def treeOf (s : Forest) (x : Nat) : List Nat := (s.toTree (s.n + 1) (rootOf s (s.n + 1) x)).pre

/-- what a deep copy of `n` must contain: the whole tree of `n`, plus — transitively — the whole trees
of the targets of the symlink nodes in it -/
def copySetF (s : Forest) (tg : Nat → Option Nat) : Nat → List Nat → List Nat
  | 0, acc => acc
  | fuel+1, acc =>
    let more := (acc.filterMap tg).flatMap (treeOf s)
    let acc' := more.foldl (fun a x => if a.contains x then a else a ++ [x]) acc
    if acc'.length = acc.length then acc else copySetF s tg fuel acc'

def copySet (s : Forest) (tg : Nat → Option Nat) (n : Nat) : List Nat :=
  copySetF s tg (s.n + 1) (treeOf s n)

end Spec
end Anytree
