import Anytree.Model.Dict
/-! # Specification side of the dictionary export/import (C10, C11) -/
namespace Anytree
namespace Spec
open Tree Dict
variable {V : Type}

mutual
/-- the dictionary of a tree whose children are already selected, ordered and cut: every node's
attributes and a `'children'` list that is present only when non-empty -/
def plainT : Tree (Attrs V) → DData V
  | node a cs => .mk a (match plainL cs with | [] => none | l => some l)
def plainL : List (Tree (Attrs V)) → List (DData V)
  | [] => []
  | c :: cs => plainT c :: plainL cs
end

/-- what gets exported: `attriter` applied to the public attributes of every node, `childiter`
applied to every children tuple, nodes at relative depth ≥ `maxlevel` cut (the start node stays) -/
def viewF (attriter : Attrs V → Attrs V) (childiter : List (Tree (Attrs V)) → List (Tree (Attrs V)))
    (maxlevel : Option Int) : Nat → Int → Tree (Attrs V) → Tree (Attrs V)
  | 0, _, node a _ => node (dictOf (attriter (iterAttrValues a))) []
  | fuel+1, level, node a cs =>
    node (dictOf (attriter (iterAttrValues a)))
      (if (match maxlevel with | none => true | some m => decide (level < m))
       then (childiter cs).map (viewF attriter childiter maxlevel fuel (level + 1)) else [])

mutual
/-- remove `'children': []` entries -/
def stripEmptyT : DData V → DData V
  | .mk a none => .mk a none
  | .mk a (some cs) => .mk a (match stripEmptyL cs with | [] => none | l => some l)
def stripEmptyL : List (DData V) → List (DData V)
  | [] => []
  | d :: ds => stripEmptyT d :: stripEmptyL ds
end

/-- keys pairwise distinct, none of them reserved (`parent`, `children`) or tree bookkeeping -/
def CleanAttrs (a : Attrs V) : Prop :=
  (a.map Prod.fst).Nodup ∧ ∀ e ∈ a, e.1 ≠ "children" ∧ e.1 ≠ "parent" ∧ ¬ Generated.dictSkipped.contains e.1 = true

mutual
def CleanT : Tree (Attrs V) → Prop
  | node a cs => CleanAttrs a ∧ CleanL cs
def CleanL : List (Tree (Attrs V)) → Prop
  | [] => True
  | c :: cs => CleanT c ∧ CleanL cs
end

mutual
def CleanD : DData V → Prop
  | .mk a none => CleanAttrs a
  | .mk a (some cs) => CleanAttrs a ∧ CleanDL cs
def CleanDL : List (DData V) → Prop
  | [] => True
  | d :: ds => CleanD d ∧ CleanDL ds
end

end Spec
end Anytree
