import Anytree.Model.Export
import Anytree.Spec.Iter
/-!
# Specification of the DOT and Mermaid exports (C12, C13)

Declared nodes = the admitted nodes that pass `filter_`, in pre-order (exactly what the iterators
visit); edges = the parent–child pairs whose two ends are both declared, parents in pre-order,
children in order.  Node names are given by a *pure* naming function; for the id-based default
names the property only asks for distinct, stable identifiers.
-/
namespace Anytree
namespace Spec
open Tree Export
variable {α κ : Type}

def declared (F S : Tree α → Bool) (m : Option Int) (t : Tree α) : List (Tree α) := preSpec F S m t

/-- the nodes of the admitted tree (each with its admitted children), in pre-order -/
def admittedNodes (S : Tree α → Bool) (m : Option Int) (t : Tree α) : List (Tree (Tree α)) :=
  match admitT S m t with
  | none => []
  | some A => pre (decorate A)

/-- parent–child pairs whose two ends are both declared -/
def edgePairs (F S : Tree α → Bool) (m : Option Int) (t : Tree α) : List (Tree α × Tree α) :=
  (admittedNodes S m t).flatMap fun P =>
    if F P.label then (P.kids.filter (fun C => F C.label)).map (fun C => (P.label, C.label)) else []

/-- what the DOT exporters actually emit (finding D3): the child is re-checked against `filter_`
only, so a child that satisfies `stop` still gets an edge -/
def edgePairsNoStopRecheck (F S : Tree α → Bool) (m : Option Int) (t : Tree α) :
    List (Tree α × Tree α) :=
  (preSpec F S (lower m) t).flatMap fun p => (p.kids.filter F).map (fun c => (p, c))

def dotNodeLine (ind : String) (nm : Tree α → String) (attr : Tree α → Option String) (n : Tree α) : String :=
  ind ++ "\"" ++ esc (nm n) ++ "\"" ++ optAttr (attr n) ++ ";"

def dotEdgeLine (ind : String) (nm : Tree α → String) (etype : Tree α → Tree α → String)
    (eattr : Tree α → Tree α → Option String) (pc : Tree α × Tree α) : String :=
  ind ++ "\"" ++ esc (nm pc.1) ++ "\" " ++ etype pc.1 pc.2 ++ " \"" ++ esc (nm pc.2) ++ "\"" ++
    optAttr (eattr pc.1 pc.2) ++ ";"

/-- the DOT text the property demands, for a pure naming function -/
def dotLinesS (c : DotCfg α κ) (nm : Tree α → String) (t : Tree α) : List String :=
  let ind := spaces c.indent
  [c.graph ++ " " ++ c.name ++ " {"] ++ c.options.map (fun o => ind ++ o) ++
  (declared c.filter c.stop c.maxlevel t).map (dotNodeLine ind nm c.nodeattr) ++
  (edgePairs c.filter c.stop c.maxlevel t).map (dotEdgeLine ind nm c.edgetype c.edgeattr) ++ ["}"]

/-- … and what is emitted today (same, with the D3 edge set) -/
def dotLinesD3 (c : DotCfg α κ) (nm : Tree α → String) (t : Tree α) : List String :=
  let ind := spaces c.indent
  [c.graph ++ " " ++ c.name ++ " {"] ++ c.options.map (fun o => ind ++ o) ++
  (declared c.filter c.stop c.maxlevel t).map (dotNodeLine ind nm c.nodeattr) ++
  (edgePairsNoStopRecheck c.filter c.stop c.maxlevel t).map (dotEdgeLine ind nm c.edgetype c.edgeattr) ++ ["}"]

def merNodeLine (ind : String) (nm : Tree α → String) (nodefunc : Tree α → String) (n : Tree α) : String :=
  ind ++ nm n ++ nodefunc n

def merEdgeLine (ind : String) (nm : Tree α → String) (edgefunc : Tree α → Tree α → String)
    (pc : Tree α × Tree α) : String :=
  ind ++ nm pc.1 ++ edgefunc pc.1 pc.2 ++ nm pc.2

def merLinesS (c : MermaidCfg α κ) (nm : Tree α → String) (t : Tree α) : List String :=
  let ind := spaces c.indent
  [c.graph ++ " " ++ c.name] ++ c.options.map (fun o => ind ++ o) ++
  (declared c.filter c.stop c.maxlevel t).map (merNodeLine ind nm c.nodefunc) ++
  (edgePairs c.filter c.stop c.maxlevel t).map (merEdgeLine ind nm c.edgefunc)

/-- inverse of `escChars`: drop the backslash in front of an escaped character -/
def unescChars : List Char → List Char
  | [] => []
  | '\\' :: c :: cs => c :: unescChars cs
  | c :: cs => c :: unescChars cs

end Spec
end Anytree
