import Anytree.Model.Forest
/-!
# Specifications over model A (C01, C02, C03, C16)

* `Inv` — the C01 invariant.
* `Spec.setParent / setChildren / delChildren` — closed-form, loop-free descriptions of what a
  *fault-free* structural call must do (refusal class, final links, hook log), written from the
  property statements, not from the code's loops.
-/
namespace Anytree
open Forest

/-- C01: the two link directions describe one forest over the nodes `0 … n-1` -/
structure Inv (s : Forest) : Prop where
  /-- `c.parent is p` iff `c` occurs in `p.children` -/
  bidir : ∀ c p, s.parent c = some p ↔ c ∈ s.children p
  /-- … and occurs there exactly once -/
  nodup : ∀ p, (s.children p).Nodup
  /-- following `parent` reaches a parentless node in finitely many steps -/
  term  : ∀ x, ∃ k, s.up k x = none
  /-- objects that do not exist yet have no links -/
  supp  : ∀ x, s.n ≤ x → s.parent x = none ∧ s.children x = []

namespace Spec

/-- `a` is a strict ancestor of `x` (bounded search: chains in an `Inv` state are shorter than `n`) -/
def isAnc (s : Forest) (a x : Nat) : Bool :=
  (List.range s.n).any (fun k => s.up (k+1) x == some a)

/-- executable check of `Inv` on the nodes `0 … n-1` (used by the driver; the proofs use `Inv`) -/
def invB (s : Forest) : Bool :=
  let ns := List.range s.n
  ns.all (fun c => ns.all (fun p => (s.parent c == some p) == (s.children p).contains c)) &&
  ns.all (fun p => (s.children p).all (fun c => c < s.n) &&
                   (s.children p).eraseDups.length == (s.children p).length) &&
  ns.all (fun c => match s.parent c with | none => true | some p => p < s.n) &&
  ns.all (fun x => s.up (s.n + 1) x == none)

def hasDup : List Nat → Bool
  | [] => false
  | x :: xs => xs.contains x || hasDup xs

def ev (k : HookKind) (node : Nat) (arg : List Nat) (s : Forest) : Event := ⟨k, node, arg, s.snap⟩

/-- links after `n` has been taken out of its parent's children -/
def detached (s : Forest) (n : Nat) : Forest :=
  match s.parent n with
  | none => s
  | some q => { s with parent := fun y => if y = n then none else s.parent y,
                       children := fun x => if x = q then (s.children q).filter (· != n)
                                            else s.children x }

/-- links after the parentless `n` has become the last child of `p` -/
def attached (s : Forest) (n p : Nat) : Forest :=
  { s with parent := fun y => if y = n then some p else s.parent y,
           children := fun x => if x = p then s.children p ++ [n] else s.children x }

def detachLog (s : Forest) (n : Nat) : List Event :=
  match s.parent n with
  | none => []
  | some q => [ev .preDetach n [q] s, ev .postDetach n [q] (detached s n)]

def attachLog (s : Forest) (n p : Nat) : List Event :=
  [ev .preAttach n [p] s, ev .postAttach n [p] (attached s n p)]

structure Result where
  res : Except Err Unit
  f : Forest
  log : List Event

/-- `n.parent = v` without hook faults -/
def setParent (fl : Flavor) (s : Forest) (n : Nat) (v : Option Arg) : Result :=
  match v with
  | some .nonNode =>
    match fl with
    | .nm => ⟨.error .treeError, s, []⟩
    | .light => ⟨.error .unmodelled, s, []⟩
  | none => ⟨.ok (), detached s n, detachLog s n⟩
  | some (.node p) =>
    if s.parent n = some p then ⟨.ok (), s, []⟩
    else if p = n || isAnc s n p then ⟨.error .loopError, s, []⟩
    else ⟨.ok (), attached (detached s n) n p, detachLog s n ++ attachLog (detached s n) n p⟩

/-- detach each of `cs` (children of one node) in order, collecting the per-child events -/
def detachAll (s : Forest) : List Nat → Forest × List Event
  | [] => (s, [])
  | c :: cs =>
    let r := detachAll (detached s c) cs
    (r.1, detachLog s c ++ r.2)

/-- `del n.children` without hook faults -/
def delChildren (s : Forest) (n : Nat) : Result :=
  let old := s.children n
  let r := detachAll s old
  ⟨.ok (), r.1, [ev .preDetachChildren n old s] ++ r.2 ++ [ev .postDetachChildren n old r.1]⟩

/-- move each of `xs` under `n` in order -/
def attachAll (s : Forest) (n : Nat) : List Nat → Forest × List Event
  | [] => (s, [])
  | x :: xs =>
    let s1 := detached s x
    let s2 := attached s1 x n
    let r := attachAll s2 n xs
    (r.1, detachLog s x ++ attachLog s1 x n ++ r.2)

def firstBad (fl : Flavor) : List Nat → List Arg → Option Err
  | _, [] => none
  | _, .nonNode :: _ => some (match fl with | .nm => .treeError | .light => .unmodelled)
  | seen, .node k :: rest => if seen.contains k then some .treeError else firstBad fl (k :: seen) rest

/-- `n.children = xs` without hook faults; a refused call leaves everything as it was (C03) -/
def setChildren (fl : Flavor) (s : Forest) (n : Nat) (xs : Option (List Arg)) : Result :=
  match xs with
  | none => ⟨.error .typeError, s, []⟩
  | some as =>
    match firstBad fl [] as with
    | some e => ⟨.error e, s, []⟩
    | none =>
      let xs := argsToNodes as
      if xs.any (fun x => x = n || isAnc s x n) then ⟨.error .loopError, s, []⟩
      else
        let d := delChildren s n
        let a := attachAll d.f n xs
        ⟨.ok (), a.1,
          d.log ++ [ev .preAttachChildren n xs d.f] ++ a.2 ++ [ev .postAttachChildren n xs a.1]⟩

/-- the links the property text prescribes after a successful `n.children = xs` -/
def childrenAssigned (s : Forest) (n : Nat) (xs : List Nat) : Forest :=
  { s with
    parent := fun y => if xs.contains y then some n
                       else if s.parent y = some n then none else s.parent y,
    children := fun q => if q = n then xs else (s.children q).filter (fun c => !xs.contains c) }

/-- constructor without hook faults -/
def ctor (fl : Flavor) (s : Forest) (parent : Option Arg) (children : CtorKids) : Result :=
  let me := s.n
  let s0 := s.newNode
  let r1 := setParent fl s0 me parent
  match r1.res with
  | .error _ => r1
  | .ok () =>
    match children with
    | .none => r1
    | .list [] => r1
    | .nonIterable => ⟨.error .typeError, r1.f, r1.log⟩
    | .list xs =>
      let r2 := setChildren fl r1.f me (some xs)
      ⟨r2.res, r2.f, r1.log ++ r2.log⟩

def run (fl : Flavor) (s : Forest) : Op → Result
  | .setParent n v => setParent fl s n v
  | .setChildren n xs => setChildren fl s n xs
  | .delChildren n => delChildren s n
  | .ctor p cs => ctor fl s p cs

end Spec
end Anytree

/-! ## what the properties demand when a hook raises (C03, C16)

`none` = the property texts leave it open (e.g. the hook log during the restore of a vetoed
children assignment, or the state after a raising post hook of a children assignment). -/
namespace Anytree
namespace Spec

structure FResult where
  res : Option (Except Err Unit)
  snap : Option (List (Option Nat × List Nat))
  log : Option (List Event)

def firstFault (φ : Faults) : Nat → List Event → Option (Nat × Event)
  | _, [] => none
  | i, e :: es => if φ i e.kind e.node then some (i, e) else firstFault φ (i+1) es

/-- one phase (a parent assignment, or a children assignment / deletion) under a fault schedule.
`off` = hook invocations before this phase; `r` = its fault-free specification. -/
def phase (φ : Faults) (isParentAssign : Bool) (off : Nat) (pre : Forest) (r : Result) : FResult :=
  match firstFault φ off r.log with
  | none =>
    ⟨some r.res, some r.f.snap,
     match r.res with
     | .error .loopError => if isParentAssign then some r.log else none
     | _ => some r.log⟩
  | some (i, e) =>
    let err : Except Err Unit := .error (.hook i e.kind e.node)
    if e.kind.isPre then
      -- C03: a raising pre hook leaves every node's parent and ordered children as before the call
      ⟨some err, some pre.snap, if isParentAssign then some (r.log.take (i - off + 1)) else none⟩
    else if isParentAssign then
      -- C16: a post hook's exception propagates without undoing the step that preceded it
      ⟨some err, some e.snapshot, some (r.log.take (i - off + 1))⟩
    else ⟨some err, none, none⟩

def runFaulty (fl : Flavor) (φ : Faults) (s : Forest) : Op → FResult
  | .setParent n v => phase φ true 0 s (setParent fl s n v)
  | .setChildren n xs => phase φ false 0 s (setChildren fl s n xs)
  | .delChildren n => phase φ false 0 s (delChildren s n)
  | .ctor p cs =>
    let me := s.n
    let s0 := s.newNode
    let r1 := phase φ true 0 s0 (setParent fl s0 me p)
    match r1.res with
    | some (.ok ()) =>
      let f1 := (setParent fl s0 me p).f
      let l1 := (setParent fl s0 me p).log
      match cs with
      | .none => r1
      | .list [] => r1
      | .nonIterable => ⟨some (.error .typeError), r1.snap, r1.log⟩
      | .list xs =>
        let r2 := phase φ false l1.length f1 (setChildren fl f1 me (some xs))
        ⟨r2.res, r2.snap, match r2.log with | none => none | some l2 => some (l1 ++ l2)⟩
    | _ => r1

end Spec
end Anytree
