import Anytree.Model.Tree
/-!
# Specification of the iterators (C05, C06)

Independent of the mirror's loops: the *admitted tree* — the part of the tree below the start
node that survives `stop` and `maxlevel`, every node labelled with the original node object —
and the textbook traversals of `Model/Tree.lean` applied to it, followed by `filter_`.
-/
namespace Anytree
namespace Spec
open Tree
variable {α β : Type}

/-- `maxlevel` forbids a node at relative depth 0 -/
def cut (m : Option Int) : Bool :=
  match m with
  | none => false
  | some k => decide (k ≤ 0)

def lower (m : Option Int) : Option Int := m.map (· - 1)

mutual
/-- The admitted part of `t`: `none` if the node itself is not admitted (relative depth not below
`maxlevel`, or it satisfies `stop`), otherwise the node — labelled with the node object itself —
above the admitted parts of its children, one level further down. -/
def admitT (stop : Tree α → Bool) (m : Option Int) : Tree α → Option (Tree (Tree α))
  | node a cs =>
    if cut m || stop (node a cs) then none
    else some (node (node a cs) (admitL stop (lower m) cs))
def admitL (stop : Tree α → Bool) (m : Option Int) : List (Tree α) → List (Tree (Tree α))
  | [] => []
  | c :: cs =>
    (match admitT stop m c with
     | none => []
     | some c' => [c']) ++ admitL stop m cs
end

def optPre : Option (Tree β) → List β
  | none => []
  | some t => t.pre
def optPost : Option (Tree β) → List β
  | none => []
  | some t => t.post
def optLevels : Option (Tree β) → List (List β)
  | none => []
  | some t => t.levels

/-- reverse the lists at odd indices (levels 1, 3, 5, …) -/
def zigzagSpec (ls : List (List β)) : List (List β) :=
  ls.mapIdx (fun i l => if i % 2 = 1 then l.reverse else l)

def preSpec (filter stop : Tree α → Bool) (m : Option Int) (t : Tree α) : List (Tree α) :=
  (optPre (admitT stop m t)).filter filter
def postSpec (filter stop : Tree α → Bool) (m : Option Int) (t : Tree α) : List (Tree α) :=
  (optPost (admitT stop m t)).filter filter
def levelSpec (filter stop : Tree α → Bool) (m : Option Int) (t : Tree α) : List (Tree α) :=
  (optLevels (admitT stop m t)).flatten.filter filter
def groupSpec (filter stop : Tree α → Bool) (m : Option Int) (t : Tree α) : List (List (Tree α)) :=
  (optLevels (admitT stop m t)).map (List.filter filter)
def zigzagIterSpec (filter stop : Tree α → Bool) (m : Option Int) (t : Tree α) :
    List (List (Tree α)) :=
  zigzagSpec ((optLevels (admitT stop m t)).map (List.filter filter))

end Spec
end Anytree
