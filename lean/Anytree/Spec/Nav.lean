import Anytree.Model.Tree
/-!
# Specification of the navigation attributes (C04): definitions over the parent/children relation

A node is an address `a` below the root `r`; its parent is `a.dropLast`, its `i`-th child `a ++ [i]`.
-/
namespace Anytree
namespace Spec
open Tree
variable {α : Type}

/-- all prefixes, shortest first: the chain from the root down to the node -/
def prefixes : Addr → List Addr
  | [] => [[]]
  | i :: is => [] :: (prefixes is).map (i :: ·)

def pathS (a : Addr) : List Addr := prefixes a
/-- path without the node itself -/
def ancestorsS (a : Addr) : List Addr := (prefixes a).dropLast
def rootS (_ : Addr) : Addr := []
def depthS (a : Addr) : Nat := a.length

def nkids (r : Tree α) (a : Addr) : Nat :=
  match sub r a with
  | none => 0
  | some t => t.kids.length

def isLeafS (r : Tree α) (a : Addr) : Bool := nkids r a == 0
def isRootS (a : Addr) : Bool := a == []

/-- the parent's other children, in order -/
def siblingsS (r : Tree α) (a : Addr) : List Addr :=
  match a.getLast? with
  | none => []
  | some i => ((List.range (nkids r a.dropLast)).filter (· != i)).map (fun j => a.dropLast ++ [j])

/-- all nodes strictly below, in pre-order -/
def descendantsS (r : Tree α) (a : Addr) : List Addr :=
  match sub r a with
  | none => []
  | some t => (addrs t).tail.map (a ++ ·)

/-- the childless nodes of the subtree, in pre-order -/
def leavesS (r : Tree α) (a : Addr) : List Addr :=
  match sub r a with
  | none => []
  | some t => ((addrs t).filter (fun b => nkids t b == 0)).map (a ++ ·)

def sizeS (r : Tree α) (a : Addr) : Nat :=
  match sub r a with
  | none => 0
  | some t => t.size

/-- number of edges on the longest downward path -/
def heightS (r : Tree α) (a : Addr) : Nat :=
  match sub r a with
  | none => 0
  | some t => t.height

/-- longest common prefix of two lists -/
def lcp2 {β : Type} [DecidableEq β] : List β → List β → List β
  | x :: xs, y :: ys => if x = y then x :: lcp2 xs ys else []
  | _, _ => []

/-- longest common prefix of the given chains; `[]` for no chains -/
def lcpAll {β : Type} [DecidableEq β] : List (List β) → List β
  | [] => []
  | [l] => l
  | l :: ls => lcp2 l (lcpAll ls)

def leftS (r : Tree α) (a : Addr) : Option Addr :=
  match a.getLast? with
  | none => none
  | some i => if i = 0 then none else
      if i - 1 < nkids r a.dropLast then some (a.dropLast ++ [i - 1]) else none

def rightS (r : Tree α) (a : Addr) : Option Addr :=
  match a.getLast? with
  | none => none
  | some i => if i + 1 < nkids r a.dropLast then some (a.dropLast ++ [i + 1]) else none

end Spec
end Anytree
