import Anytree.Model.Render
import Anytree.Spec.Nav
/-!
# Specification of RenderTree (C09)

The rendered *view*: `childiter` applied to every (non-empty) children tuple, nodes at relative
depth ≥ `max(maxlevel, 1)` cut.  One row per node of the view, in pre-order; the prefixes are a
function of the node's address in the view.
-/
namespace Anytree
namespace Spec
open Tree Render
variable {α : Type}

/-- the view, with fuel (any fuel above the height suffices when `childiter` only returns children
it was given); `level` = depth of the node -/
def renderView (childiter : List (Tree α) → List (Tree α)) (maxlevel : Option Int) :
    Nat → Int → Tree α → Tree α
  | 0, _, node a _ => node a []
  | fuel+1, level, node a cs =>
    node a (if (match maxlevel with | none => true | some m => decide (level + 1 < m)) then
        (match cs with
         | [] => []
         | c :: cs' => (childiter (c :: cs')).map (renderView childiter maxlevel fuel (level + 1)))
      else [])

/-- `flags[j]` = the ancestor-or-self at depth `j+1` has a following sibling in the view -/
def flagsAt (v : Tree α) (a : Addr) : List Bool :=
  (List.range a.length).map (fun j => decide (a.getD j 0 + 1 < nkids v (a.take j)))

def segs (style : Style) (flags : List Bool) : List String :=
  flags.map (fun c => if c then style.vertical else style.empty)

/-- `(pre, fill)` of the node at address `a` of the view -/
def prefixesAt (style : Style) (v : Tree α) (a : Addr) : String × String :=
  let flags := flagsAt v a
  match flags.getLast? with
  | none => ("", "")
  | some last =>
    (String.join (segs style flags.dropLast) ++ (if last then style.cont else style.end_),
     String.join (segs style flags))

/-- one `(pre, fill, payload)` per node of the view, in pre-order -/
def rowsS (style : Style) (childiter : List (Tree α) → List (Tree α)) (maxlevel : Option Int)
    (t : Tree α) : List (String × String × α) :=
  let v := renderView childiter maxlevel (t.height + 1) 0 t
  (addrs v).filterMap (fun a =>
    match sub v a with
    | none => none
    | some n => some ((prefixesAt style v a).1, (prefixesAt style v a).2, n.label))

/-- the shape of a tree -/
def shape : Tree α → Tree Unit := Tree.map (fun _ => ())

/-- rebuild a forest from the pre-order list of depths (each relative to `d`): the children of a
node at depth `d` are the maximal runs starting with depth `d + 1` -/
def forestOfDepths : Nat → Nat → List Nat → List (Tree Unit) × List Nat
  | 0, _, ds => ([], ds)
  | _, _, [] => ([], [])
  | fuel+1, d, x :: ds =>
    if x = d then
      let (kids, rest) := forestOfDepths fuel (d + 1) ds
      let (sibs, rest') := forestOfDepths fuel d rest
      (node () kids :: sibs, rest')
    else ([], x :: ds)

/-- the tree drawn by a list of row depths -/
def treeOfDepths (ds : List Nat) : Option (Tree Unit) :=
  match forestOfDepths (ds.length + 1) 0 ds with
  | ([t], []) => some t
  | _ => none

end Spec
end Anytree
