import Anytree.Model.Resolver
import Anytree.Spec.Walker
import Anytree.Lemmas.CaseFold
/-!
# Specification of `Resolver.get` / `Resolver.glob` (C07, C08)
-/
namespace Anytree
namespace Spec
open Tree Str Resolver
variable {α : Type}

/-- wildcard matching of one name, as the property words it: `*` any run of characters, `?` exactly
one character, every other character only itself, the whole name anchored -/
inductive WMatch (ic : Bool) : List Char → List Char → Prop
  | nil : WMatch ic [] []
  | star_skip {p n} : WMatch ic p n → WMatch ic ('*' :: p) n                    -- `*` matches nothing more
  | star_take {p c n} : WMatch ic ('*' :: p) n → WMatch ic ('*' :: p) (c :: n)  -- `*` takes one more char
  | any {p c n} : WMatch ic p n → WMatch ic ('?' :: p) (c :: n)
  | lit {x p c n} : x ≠ '*' → x ≠ '?' → eqChar ic x c = true → WMatch ic p n → WMatch ic (x :: p) (c :: n)

/-- children of `a` whose name matches the component -/
def matching (c : Ctx α) (a : Addr) (pat : String) : List Addr :=
  (c.children a).filter (fun ch => matchPure c.ignorecase (c.name ch) pat)

/-- remove later duplicates, keeping first occurrences in order -/
def dedup (l : List Addr) : List Addr := appendNew [] l

/-- **the nodes a pattern denotes** from node `a` (no errors: a step that is impossible denotes
nothing) — components as `get` reads them, `**` = the node and all its descendants -/
def denote (c : Ctx α) : List String → Addr → List Addr
  | [], a => [a]
  | name :: rem, a =>
    if name == ".." then (if a = [] then [] else denote c rem a.dropLast)
    else if name == "" || name == "." then denote c rem a
    else if name == "**" then
      dedup (((Tree.addrs ((sub c.r a).getD c.r)).map (a ++ ·)).flatMap (denote c rem))
    else (matching c a name).flatMap (denote c rem)

/-- is some alternative explored from `a` a genuine dead end: a literal component without a matching
child, or a `..` step at the root? -/
def hasDeadEnd (c : Ctx α) : List String → Addr → Bool
  | [], _ => false
  | name :: rem, a =>
    if name == ".." then (if a = [] then true else hasDeadEnd c rem a.dropLast)
    else if name == "" || name == "." then hasDeadEnd c rem a
    else if name == "**" then
      ((Tree.addrs ((sub c.r a).getD c.r)).map (a ++ ·)).any (hasDeadEnd c rem)
    else if isWildcard name then (matching c a name).any (hasDeadEnd c rem)
    else (matching c a name).isEmpty || (matching c a name).any (hasDeadEnd c rem)

/-- `glob` from the start node, relaxed reading: what the path denotes (`[]` if the root component
is missing or does not match) -/
def globS (c : Ctx α) (a : Addr) (path : String) : List Addr :=
  let parts := split c.sep path
  if startsWith path c.sep then
    match parts.drop 1 with
    | [] => []
    | p0 :: rest =>
      if p0 == "" then [] else if !matchPure c.ignorecase (c.name []) p0 then [] else denote c rest []
  else denote c parts a

/-- a usable component: non-empty, not `.`/`..`, free of the separator -/
def NameOk (sep : String) (s : String) : Prop :=
  s ≠ "" ∧ s ≠ "." ∧ s ≠ ".." ∧ ¬ ∃ pre post, s.toList = pre ++ sep.toList ++ post

/-- one component of `get`: `..` to the parent, `''`/`.` stay, anything else to the first child
whose path attribute equals it (case-insensitively if `ignorecase`) -/
def stepS (c : Ctx α) (a : Addr) (part : String) : Except RErr Addr :=
  if part == ".." then (if a = [] then .error (.root a) else .ok a.dropLast)
  else if part == "" || part == "." then .ok a
  else match (c.children a).find? (fun ch => cmp c.ignorecase (c.name ch) part) with
    | some ch => .ok ch
    | none => .error (.child a part)

/-- follow the components; the error is that of the first failing component -/
def walkPath (c : Ctx α) : List String → Addr → Except RErr Addr
  | [], a => .ok a
  | p :: ps, a => match stepS c a p with
    | .ok b => walkPath c ps b
    | .error e => .error e

/-- strict reading of `get` -/
def getStrictS (c : Ctx α) (a : Addr) (path : String) : Except RErr Addr :=
  let parts := split c.sep path
  if startsWith path c.sep then
    match parts.drop 1 with
    | [] => .error (.plain [])
    | p0 :: rest =>
      if p0 == "" then .error (.plain [])                               -- root component missing
      else if !cmp c.ignorecase (c.name []) p0 then .error (.plain [])  -- unknown root component
      else walkPath c rest []
  else walkPath c parts a

/-- `get`: strict result, or with `relax` `None` in exactly the cases where strict raises -/
def getS (c : Ctx α) (a : Addr) (path : String) : Except RErr (Option Addr) :=
  match getStrictS c a path with
  | .ok n => .ok (some n)
  | .error e => if c.relax then .ok none else .error e

/-- may strict `glob` raise on this path: root component missing/unknown, or a dead end -/
def mayRaise (c : Ctx α) (a : Addr) (path : String) : Bool :=
  let parts := split c.sep path
  if startsWith path c.sep then
    match parts.drop 1 with
    | [] => true
    | p0 :: rest =>
      if p0 == "" then true else if !matchPure c.ignorecase (c.name []) p0 then true else hasDeadEnd c rest []
  else hasDeadEnd c parts a

/-- sibling names pairwise different under the resolver's comparison -/
def SiblingUnique (c : Ctx α) : Prop :=
  ∀ a x y, x ∈ c.children a → y ∈ c.children a → cmp c.ignorecase (c.name x) (c.name y) = true → x = y

/-- With `ignorecase`, `get` compares `str.upper()` and `glob` matches under `re.IGNORECASE`; the two
agree when they induce the same equivalence on the characters *in play*: those of every node name and
those satisfying `P` (the characters of the path).  Vacuous without `ignorecase`; holds for ASCII and
for the regular alphabet (`CaseFold.caseRegular_regularAlphabet`); fails for the KELVIN, ANGSTROM
and OHM signs. -/
def CaseAgree (c : Ctx α) (P : Char → Prop) : Prop :=
  c.ignorecase = true → CaseFold.CaseRegular (fun x => P x ∨ ∃ b, x ∈ (c.name b).toList)

theorem CaseAgree.mono {c : Ctx α} {P Q : Char → Prop} (h : CaseAgree c Q) (hpq : ∀ x, P x → Q x) :
    CaseAgree c P := fun hic =>
  (h hic).mono fun x hx => hx.elim (fun hp => Or.inl (hpq x hp)) Or.inr

theorem caseAgree_of_ignorecase_false (c : Ctx α) (P : Char → Prop) (h : c.ignorecase = false) :
    CaseAgree c P := fun hic => by rw [h] at hic; cases hic

/-- sufficient: every character of every name and of the path lies in the regular alphabet -/
theorem caseAgree_of_regular (c : Ctx α) (P : Char → Prop)
    (hn : ∀ b, ∀ x ∈ (c.name b).toList, x ∈ CaseFold.regularAlphabet)
    (hp : ∀ x, P x → x ∈ CaseFold.regularAlphabet) : CaseAgree c P := fun _ =>
  CaseFold.caseRegular_regularAlphabet.mono fun x hx =>
    hx.elim (hp x) (fun ⟨b, hb⟩ => hn b x hb)

/-- … in particular ASCII names and an ASCII path -/
theorem caseAgree_of_ascii (c : Ctx α) (P : Char → Prop)
    (hn : ∀ b, ∀ x ∈ (c.name b).toList, x.toNat < 128)
    (hp : ∀ x, P x → x.toNat < 128) : CaseAgree c P :=
  caseAgree_of_regular c P
    (fun b x hx => List.mem_append_left _ (CaseFold.mem_asciiChars x (hn b x hx)))
    (fun x hx => List.mem_append_left _ (CaseFold.mem_asciiChars x (hp x hx)))

/-- the components of the path from the root to `a` below the root's own name -/
def namesBelow (c : Ctx α) (a : Addr) : List String := ((prefixes a).drop 1).map c.name

/-- relative components from `s` to `e` along `Walker.walk`: one `..` per upward step, then the names
of the downward nodes -/
def relParts (c : Ctx α) (s e : Addr) : List String :=
  let k := lcp2 s e
  List.replicate (s.length - k.length) ".." ++ ((below k e).map c.name)

end Spec
end Anytree
