import Anytree.Spec.Iter
import Anytree.Model.Search
/-! # Specification of the search functions (C14) -/
namespace Anytree
namespace Spec
open Tree Search
variable {α : Type}

/-- the matches: filtered pre-order of the admitted tree -/
def matchesS (filter stop : Tree α → Bool) (m : Option Int) (t : Tree α) : List (Tree α) :=
  preSpec filter stop m t

/-- `CountError` iff the number of matches is below `mincount` or above `maxcount`
(the lower bound is reported first) -/
def findallS (filter stop : Tree α → Bool) (m : Option Int) (mincount maxcount : Option Int)
    (t : Tree α) : Res (List (Tree α)) :=
  let r := matchesS filter stop m t
  let n : Int := r.length
  if mincount.any (fun mn => decide (n < mn)) then .countError true (mincount.getD 0) r.length
  else if maxcount.any (fun mx => decide (n > mx)) then .countError false (maxcount.getD 0) r.length
  else .ok r

/-- `None` for no match, the node for exactly one, `CountError` for more -/
def findS (filter stop : Tree α → Bool) (m : Option Int) (t : Tree α) : Res (Option (Tree α)) :=
  match matchesS filter stop m t with
  | [] => .ok none
  | [x] => .ok (some x)
  | r => .countError false 1 r.length

end Spec
end Anytree
