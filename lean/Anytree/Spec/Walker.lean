import Anytree.Spec.Nav
import Anytree.Model.Walker
/-!
# Specification of `Walker.walk` (C15): the unique tree path through the lowest common ancestor
-/
namespace Anytree
namespace Spec
open Tree Walker

/-- the proper extensions of `c` along `a`: `c ++ [a_k]`, `c ++ [a_k, a_{k+1}]`, … up to `a`
(for `c` a prefix of `a`), top-down -/
def below (c a : Addr) : List Addr := (prefixes a).drop (c.length + 1)

/-- lowest common ancestor = longest common prefix of the two addresses; `upwards` = the nodes from
`start` up to but excluding it; `downwards` = the nodes below it down to `end` -/
def walkS (s e : WNode) : Res :=
  if s.1 ≠ e.1 then .walkError
  else
    let c := lcp2 s.2 e.2
    .ok ((below c s.2).reverse.map (fun p => (s.1, p))) (s.1, c) ((below c e.2).map (fun p => (e.1, p)))

end Spec
end Anytree
