import Anytree.Drv.Iter
import Anytree.Drv.Forest
import Anytree.Drv.Nav
import Anytree.Drv.Walk
import Anytree.Drv.Export
import Anytree.Drv.Dict
import Anytree.Drv.Render
import Anytree.Drv.Resolver
import Anytree.Drv.Attr
/-!
Line-protocol driver: one JSON case per input line, one JSON object per output line:
`{"mirror": <what the model of the code computes>, "spec": <what the specification demands>}`
or `{"error": msg}` when the case cannot be decoded (a harness bug, never a verdict).
-/
open Lean Anytree.Drv

def dispatch (j : Json) : R (Json × Json) := do
  let fam ← getStr j "fam"
  match fam with
  | "iter" => runIter j
  | "forest" => runForest j
  | "lockstep" => runLockstep j
  | "adversarial" => runForest j
  | "nav" => runNav j
  | "walk" => runWalk j
  | "search" => runSearch j
  | "export" => runExport j
  | "dict" => runDict j
  | "render" => runRender j
  | "resolve" => runResolve j
  | "symlink" => runSymlink j
  | "copy" => runCopy j
  | "deepchain" => pure (Json.null, Json.null)     -- closed-form expectation, evaluated by the harness (see f_deepchain.py)
  | "unires" => pure (Json.null, Json.null)        -- model-free clauses over all of Unicode, judged by the harness (see f_unires.py)
  | f => throw s!"unknown family {f}"

def handle (line : String) : String :=
  match Json.parse line with
  | .error e => (Json.mkObj [("error", s!"parse: {e}")]).compress
  | .ok j =>
    match dispatch j with
    | .ok (m, s) => (Json.mkObj [("mirror", m), ("spec", s)]).compress
    | .error e => (Json.mkObj [("error", e)]).compress

partial def loop (hin : IO.FS.Stream) (hout : IO.FS.Stream) : IO Unit := do
  let line ← hin.getLine
  if line.isEmpty then return ()
  if line.trimAscii.isEmpty then loop hin hout else
  hout.putStrLn (handle line)
  loop hin hout

def main : IO Unit := do
  let hin ← IO.getStdin
  let hout ← IO.getStdout
  loop hin hout
  hout.flush
