import Lean.Data.Json
import Anytree.Model.Tree
open Lean
partial def loop (h : IO.FS.Stream) : IO Unit := do
  let line ← h.getLine
  if line.isEmpty then return ()
  match Json.parse line with
  | .ok j => IO.println j.compress
  | .error e => IO.println s!"err {e}"
  loop h
def main : IO Unit := do loop (← IO.getStdin)
